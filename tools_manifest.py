#!/usr/bin/env python3
"""Regenerates MANIFEST.json from the table below (kept valid at all times)."""
import json, os, subprocess
HERE = os.path.dirname(os.path.abspath(__file__))

FIXES = subprocess.run(['git', '-C', '/repo', 'log', '--format=%h %s', 'bbece76..HEAD'],
                       stdout=subprocess.PIPE, universal_newlines=True).stdout.strip().splitlines()

CHECKS = {
 'C01': dict(
   technique='abstract interpretation of the session layer (own forking interpreter over the AST, interval refinement, no solver): complete (event,state) reaction table extracted from source and compared cell by cell with an RFC 4271 8.2.2 profile; wire-dispatch and establishment-typestate rules on the same table',
   text='Static rule discharge: for every FSM state and every entry point (operator command, each timer callback, Twisted connection callbacks, every input class of parse_buffer) all paths of the handler code are extracted and each resulting cell (messages with code/subcode, close, next state) is compared with the RFC profile. Decides the per-event reaction for all (state,event) pairs, hence for every history in the single-connection regime, because handlers read only the state and a closed set of atoms. Does not decide timing or reactor interleavings.',
   design='DESIGN.md section 3 C01, Appendix A/B',
   note='Trusted: CPython ast; the Twisted model of sa/session.py (buildProtocol, callFromThread, loseConnection ends in connectionLost); BGPTimer primitives (shape checked by C03 R03.g); the transcribed RFC profile in sa/profile.py. Decoder loops abstracted to 0/1 iteration.'),
}

NOT_APPLICABLE = {}

def main():
    checks = []
    for pid in sorted(CHECKS):
        c = CHECKS[pid]
        checks.append({
            'property_id': pid,
            'quick_cmd': 'python3 sa/check.py %s --tier quick' % pid,
            'thorough_cmd': 'python3 sa/check.py %s --tier thorough' % pid,
            'evidence_file': 'evidence/%s.json' % pid,
            'replay_cmd_template': 'python3 sa/check.py %s --tier quick  # replay file {path} names rule, instance, file:line' % pid,
            'engine': 'sa',
            'level_claimed': {'category': 'other', 'text': c['text'], 'design_ref': c['design']},
            'level_note': c['note'],
            'technique': c['technique'],
        })
    m = {
        'version': 1,
        'setup_cmd': 'true',
        'hooks': {
            'guard': 'YABGP_VERIF',
            'enable': 'no hooks: every check reads the source of /repo only (ast), nothing is built or run',
            'baseline_off_cmd': 'cd /repo && /venv/bin/python -m pytest -ra -q -p no:cacheprovider --timeout=900 --continue-on-collection-errors',
            'source_commits': [l.split()[0] for l in FIXES],
            'add_only': True,
        },
        'engines': [{'name': 'sa', 'path': 'sa/', 'serves_properties': sorted(CHECKS),
                     'kind_free_text': 'pure-stdlib static analyser for yabgp: resolved program model, forking abstract interpreter with intervals, reaction-table extractor, per-property rule modules (sa/rules), oracle tables (sa/profile.py ...)'}],
        'checks': checks,
        'notes': 'source_commits lists the unguarded fix: commits in /repo (genuine defects, see known_findings.json); there are no instrumentation hooks. Thorough tier = quick rules + checker self-test (selftest/run.py: mutants must fire, refactor twins stay silent).',
        'not_applicable': [{'property_id': k, 'reason': v} for k, v in sorted(NOT_APPLICABLE.items())],
    }
    with open(os.path.join(HERE, 'MANIFEST.json'), 'w') as f:
        json.dump(m, f, indent=1)

if __name__ == '__main__':
    main()
