#!/usr/bin/env python3
"""Regenerates MANIFEST.json from the table below (kept valid at all times)."""
import json, os, subprocess
HERE = os.path.dirname(os.path.abspath(__file__))

FIXES = subprocess.run(['git', '-C', '/repo', 'log', '--format=%h %s', 'bbece76..HEAD'],
                       stdout=subprocess.PIPE, universal_newlines=True).stdout.strip().splitlines()

CHECKS = {
 'C01': dict(
   technique='abstract interpretation of the session layer (own forking interpreter over the AST, interval refinement, no solver): complete (event,state) reaction table extracted from source and compared cell by cell with an RFC 4271 8.2.2 profile; wire-dispatch and establishment-typestate rules on the same table',
   text='Static rule discharge: for every FSM state and every entry point (operator command, each timer callback, Twisted connection callbacks, every input class of parse_buffer) all paths of the handler code are extracted and each resulting cell (messages with code/subcode, close, next state) is compared with the RFC profile. Decides the per-event reaction for all (state,event) pairs, hence for every history in the single-connection regime, because handlers read only the state and a closed set of atoms. Does not decide timing or reactor interleavings. Added: an error close to Idle carries a restart token exactly when automatic restart is allowed. The ConnectRetryTimer is off whenever OpenSent is entered; constant-table lookups (.get on module dictionaries) and attribute access on None are modelled, so an exception swallowed by the catch-all of parse_buffer shows as a message that is dispatched to nobody. An error close from a session state stops the hold and keepalive timers. ManualStop zeroes the ConnectRetryCounter in every regime; BGPTimer.active() asks the pending DelayedCall. The hold time an accepted OPEN leaves in the FSM is min(configured, proposed in this OPEN) (R01.c, shared with C02).',
   design='DESIGN.md section 3 C01, Appendix A/B',
   note='Trusted: CPython ast; the Twisted model of sa/session.py (buildProtocol, callFromThread, loseConnection ends in connectionLost); BGPTimer primitives (shape checked by C03 R03.g); the transcribed RFC profile in sa/profile.py. Decoder loops abstracted to 0/1 iteration.'),
 'C02': dict(
   technique='restart-token must-analysis on the extracted reaction table (abstract interpretation of fsm.py/factory.py/protocol.py) + who-may-write scan of the operator flag',
   text='Static rule discharge of the structural necessary condition of self-healing: on every non-operator path of every (event,state) cell that ends in Idle, or that consumes a pending restart, a reconnection is pending afterwards (idle-hold timer armed, connect started, or close requested whose connectionLost re-arms it); the restart chain is guarded by nothing but the operator flag, which only manual start/stop write. By induction over events this gives "never stuck" for every history; the numeric time bound and "stays up" are not decided. Added: the TCP-loss cells of the RFC profile are evaluated in every state (R02.g). The no-connection regimes include the one in which the previous connection\'s close was already reported (estab_protocol cleared) while the FSM still references the old protocol object. Two structural conditions of "stays up" are decided: no timer armed with 0 in OpenConfirm/Established, and a late connectionLost of a replaced connection leaves the live session alone (R02.h). BGPTimer reset / cancel / active act on the stored DelayedCall (R02.i, shape rule shared with C03).',
   design='DESIGN.md section 3 C02',
   note='Same trusted base as C01. Active is shown transient on every run (R02.f); if that stops holding its rows lose their exemption.'),
 'C03': dict(
   technique='timer-arming rules on the extracted reaction table with interval partition of the hold time (H = 0 / H > 0), symbolic check of the negotiated values (min, /k), AST shape rule for BGPTimer',
   text='Static rule discharge: keepalive period = negotiated hold / k (k >= 3) and hold = min(configured, proposed) on every accepting path; keepalive expiry sends KEEPALIVE and re-arms iff H > 0; KEEPALIVE/UPDATE restart the hold timer; no timer is ever armed with H = 0; hold expiry sends NOTIFICATION (4,0) and closes; OPEN arms the 240 s timer; BGPTimer.reset/cancel have the semantics the rest relies on. Emission times, "at that moment" and same-instant orderings are not decided. Added: at wire level every delivered KEEPALIVE/UPDATE in Established (tolerated malformed UPDATE included) restarts the hold timer. BGPTimer.reset passes the requested delay on unchanged. Reception of KEEPALIVE/UPDATE never re-arms the keepalive timer. The hold time advertised in our OPEN is the configured one. Session states are analysed in two partitions of the negotiated hold time (0 and >= 3) with the keepalive period derived from the negotiation expression, so a test of either value decides the other; the period left by an accepted OPEN is bounded by hold/3 structurally (through / // int min max) and no continuing session path rewrites either value.',
   design='DESIGN.md section 3 C03',
   note='Same trusted base as C01; reactor.callLater / DelayedCall semantics as documented by Twisted.'),
 'C12': dict(
   technique='connection-resource typestate on the extracted reaction table (incl. a second-connection regime), AST rule for connector retention, who-may-call rule for transport.write',
   text='Static rule discharge of the mechanism the property relies on: the connector is retained, a reconnect from a non-Idle state aborts the pending attempt and closes the tracked connection first, a new protocol instance replaces the tracked one only after the old one was closed, and every write goes to the tracked transport. Today the first three fail (9 known findings); the check guards the rest and reports any new instance. Every path that starts a connect leaves the state machine in Connect/Active (R12.g). No TCP-established path ends in Idle with the new connection left open.',
   design='DESIGN.md section 3 C12',
   note='Same trusted base as C01. Schedule clauses are not decided.'),
 'C13': dict(
   technique='operator-gate rules on the extracted reaction table: stop row per state with per-timer final state, Idle-exit gate (dominance by the allow_automatic_start atom on every path), manual-start row, REST call-site scan',
   text='Static rule discharge: manual stop in every state sends Cease iff Established, leaves every BGPTimer off, closes, forbids automatic start and ends in Idle; from Idle no path leaves, connects or emits a message except manual start or under the operator flag (with R02.d this gives, by induction, silence after stop for every continuation); manual start connects at once from Idle and is a no-op elsewhere. One known finding (late connect after stop). The REST stop helper reaches factory.manual_stop() unconditionally. The deferred start (idle_hold=True) arms the idle-hold timer and re-enables automatic start.',
   design='DESIGN.md section 3 C13',
   note='Same trusted base as C01; REST thread-safety not decided.'),
 'C04': dict(
   technique='path-complete abstract interpretation of BGP.parse_buffer on a symbolic receive buffer with interval refinement of the header fields; AST shape rule for dataReceived; who-may-write scan of the buffer',
   text='Static rule discharge: the deframer reads input only through the accumulated buffer (so its result is a function of the byte stream, not of the segmentation), an incomplete message changes nothing, a dispatched message consumes exactly the header length once with body buf[19:length], the accepted lengths are exactly [19,4096] and the dispatched types {1,2,3,4,5,128}, a framing violation stops parsing, and every True-returning path consumes >= 19 octets (termination of the loop). Equality with a reference deframer on concrete streams is argued from these, not enumerated. Added: besides the buffer no attribute of self is both written and read by the deframer; the parse loop is reached unconditionally. A type-1 message too short for the OPEN fixed part is answered as a header (length) error.',
   design='DESIGN.md section 3 C04',
   note='Same trusted base as C01; len()/slice semantics of bytes as modelled in sa/prims.py.'),
 'C05': dict(
   technique='provenance analysis of the OPEN fields (abstract interpretation of send_open + class-sensitive who-may-write scan), path-complete abstract interpretation of Open.construct with interval partition of the AS number, AST dominance/ordering rules for acceptance and 4-octet mode',
   text='Static rule discharge: every field of the OPEN comes from a constant, from configuration or from a location only constructors/configuration code/a set-once initialiser write; AS_TRANS and capability 65 are emitted exactly per the 65535 boundary; the AS comparison uses the post-capability value, hold = min(configured, proposed); fourbytesas starts False per connection. Two known findings (capability_negotiate mutates the configured capability set; 4-octet mode ignores the local advertisement). The peer\'s capability set of the accepted OPEN is stored unconditionally.',
   design='DESIGN.md section 3 C05',
   note='Same trusted base as C01. Acceptance dominance itself is discharged by C01 R01.c (open-accept).'),
 'C10': dict(
   technique='exception-funnel rule (AST: calls inside catch-all try) + escape analysis on the extracted table with struct.unpack/opaque decoders modelled as possibly raising; per-path report counting; effect set of the malformed-UPDATE path; shared-state write scan over yabgp/message/**',
   text='Static rule discharge: no exception escapes a Twisted callback on any extracted path, each well-framed message yields at most one report on every path, the malformed-UPDATE path in Established only reports (with the raw bytes), counts and restarts the hold timer, and no decoder writes module/class/configuration state (so earlier input cannot change how later messages decode). Termination is C11/C04. Added: a well-framed message whose decoder raises is consumed exactly once (it cannot wedge the messages behind it). No header is left undecided and every framing violation is answered in every state. The Data of every NOTIFICATION built is a byte string; no except clause of parse_buffer reports to the application. A reported message is consumed (R10.b second clause); connectionLost after our own close arms the idle-hold timer wherever automatic start is allowed (R10.k).',
   design='DESIGN.md section 3 C10',
   note='Same trusted base as C01. Library calls other than struct.unpack and the opaque Update codec are assumed not to raise.'),
 'C18': dict(
   technique='path counting on the abstract interpretation of every BGP.send_* method and of every table cell: delta of the concrete counter dictionaries vs number of transport writes / dispatched frames, per type; who-may-write scan',
   text='Static rule discharge: on every path of every send method and of every (event,state) cell the sent counters move by exactly the messages written per type; on every dispatch path the received counter of the frame type moves by 1 iff the frame has the minimum length of its type; only BGP methods write the dictionaries and the REST view returns the tracked protocol. By induction over events the counters equal the wire counts for every history. One known finding (short OPEN frames are counted). Request-driven sends count after the write; the statistic route is not gated by the session state. No send / write call is given several joined messages. The Data of every send_notification is bytes, so nothing can raise between count and write (R18.e); the receive bookkeeping that runs before the UPDATE counter cannot raise on integer flowspec keys where its family test is live (R18.f).',
   design='DESIGN.md section 3 C18',
   note='Same trusted base as C01; effects inside the internal-queue drain loop are seen for one iteration.'),
 'C08': dict(
   technique='ByteLen analysis: every construct function abstractly interpreted to symbolic concatenations; linear-form equality between each len()-derived field and the bytes it covers; symbolic TLV-stream walker for literal lengths (tunnel encapsulation, capabilities), MP_REACH layout, attribute-header/flag table rule, finite partition of prefix widths',
   text='Static rule discharge on all 65 construct functions: message headers (marker, total length, type), attribute headers (RFC category flags, type code, extended-length bit iff 2-octet length, length = value size), every len()-computed field equals the run of bytes that follows it on every path (0/1 loop iteration, linear arithmetic), literal TLV lengths equal literal bodies, prefixes occupy ceil(len/8) octets for every length, and no construct path returns None silently. Value-range overflow and the 4096 limit are not decided. Added: every returning path of every message-level constructor yields exactly marker + length(total) + type + body; fixed-width fields (PMSI label = 3 octets) on every path. The 1-octet attribute length form is reached for at most 255 octets; an accumulator that is grown and emitted inside a loop is reset inside that loop. No handler inside a loop of a construct function skips an element silently. The Opt Parm Len of the OPEN equals the size of the optional parameters the same call appends; no signed struct code in construct functions. The flowspec operator octet written for value sizes 1..8 announces the number of octets that follow, or the size is refused (R08.f, both flowspec classes).',
   design='DESIGN.md section 3 C08',
   note='Trusted: struct.calcsize, netaddr .packed being 4 or 16 octets, transcribed RFC flag categories / TLV grammars in sa/rules/c08.py.'),
 'C09': dict(
   technique='finite partition of value lengths 0..40 through the abstract interpreter for every fixed-length attribute decoder (acceptance sets vs RFC sets), constant folding of the trailing-bit mask for r=1..7, AST extraction of the dispatch table vs oracle, structural rule for generic extended-length handling',
   text='Static rule discharge of the decidable part: extended length is selected from the flags before and independent of the type dispatch, the trailing-bit mask is the top-r-bits mask, the type dispatch table equals the oracle (AS4 attributes always 4-octet), each fixed-length decoder accepts exactly the RFC length set, ORIGIN accepts {0,1,2}, prefix length > 32 and bad segment types are rejected. Value-level agreement with a reference encoder is not decided. Added: with add-path on, every decoded prefix carries the identifier read for it for every identifier value (0 included); with add-path off none does. Both IPv4 prefix-list decoders reject every length octet 33..255 (finite partition). No decoder reads a field with a signed struct code.',
   design='DESIGN.md section 3 C09',
   note='Trusted: oracle tables in sa/rules/c09.py; the interpreter model of struct/slices in sa/prims.py.'),
 'C11': dict(
   technique='loop-progress proof by abstract interpretation: every decoder while-loop is run for one iteration on symbolic input and on each back-edge path a cursor of the loop test must be a strict suffix of its previous value (slice offset with interval lower bound >= 1); call-cycle and exception-funnel AST rules',
   text='Static rule discharge: each of the 42 decoder while-loops makes progress on every path back to its head (so it terminates on every finite input), recursion through TLV registries passes strict sub-slices, for-loops do not grow their collection, and Update.parse funnels every decoder exception into a sub-error result. A quantitative work bound is not decided. Added: recursive decoders called in a loop receive bounded windows (no 2^k re-decoding of siblings); every call in a handler of Update.parse is total. A loop that grows its test variable must bound the growth from above. Class-level registries filled by decorators are opaque to the interpreter (never folded to their empty initialiser), so the branch that calls a registered decoder is walked. A re-raise of the caught UpdateMessageError object is accepted only while no constructor of the exception family can leave sub_error / data unset; a decoder reached through a registry is typed never-None only when every class registered there returns a value on every path.',
   design='DESIGN.md section 3 C11',
   note='Trusted: interval transfer functions of sa/prims.py; helper return values are taken from one loop iteration (their lower bounds only grow with more iterations).'),
 'C06': dict(
   technique='abstract interpretation of Update.construct (every built part present in the result on every path), finite partition of IPv4 prefix widths on encoder and decoder, signed-format scan, per-attribute value layout vs RFC layout table, dispatch-table symmetry',
   text='Static rule discharge of necessary conditions of the round trip: no part of the request is dropped or replaced by None, encoder and decoder use ceil(m/8) octets for every m in 0..32, no signed wire format, each standard attribute encoder writes the field widths its decoder reads (RFC layout table), every encoded type code has the same codec class on the decode side. Round-trip equality over the value space is NOT decided (not a static property); breaking any of these clauses breaks the round trip. Added: no standard attribute codec sorts/reverses/de-duplicates a collection of input elements; every well-known community name the decoder renders is accepted back. AS_PATH switches to the extended length form exactly at 256 octets (interval of the packed length per path); no comparison in these codecs splits a range between 2^k-2 and 2^k-1. Decoders subscript constant tables with received keys only under a membership / equality test of that key. construct_prefix_v4 receives the request\'s own prefix lists; decoder loops run while a minimal element still fits. An attribute constructor that can exceed 255 octets produces both length forms; the extended-community name tables are mutually consistent (code -> name -> code).',
   design='DESIGN.md section 3 C06',
   note='Trusted: RFC layout table in sa/rules/c06.py; interpreter model of struct/slices.'),
 'C07': dict(
   technique='AFI/SAFI dispatch tables extracted from both directions and compared, finite partition of NLRI prefix widths, abstract interpretation of ESI/RD/label encoders for exact record sizes and the bottom-of-stack bit, type-tag set comparison',
   text='Static rule discharge of necessary conditions: every family the MP_REACH/MP_UNREACH encoders emit is decoded by the same codec class, NLRI prefix helpers emit ceil(m/8) octets from full-width addresses, ESI is 10 octets for every type, RD 8, labels 3 with the S bit on the last one, RD/ESI type tags handled on both sides. Value equality is not decided. Added: the decoder hands every ESI value octet the encoder writes to a conversion (read-coverage log of the interpreter), the flowspec operator octet is folded for all 256 values against the RFC 5575 bit fields and every length the encoder accepts maps to the code the decoder maps back, no NLRI codec reorders or de-duplicates input collections. Five known findings. Every returning path of an EVPN route-type decoder yields every key its encoder requires; the IPv6 link-local next hop is reported exactly for a 32-octet next hop on every path; no comparison splits a range between 2^k-2 and 2^k-1. With two labels the S bit is on the last entry only on every path; the flowspec operand is never produced by a stripping operation. No signed struct code in the NLRI / MP codecs. Every flowspec component type 1..11 the decoder stores is written back by the encoder (R07.m; type 9 is a recorded finding); the NLRI codecs write no module / class state (R07.n).',
   design='DESIGN.md section 3 C07',
   note='Assumes MAC addresses have six groups; padded-hex idiom recognised structurally.'),
 'C14': dict(
   technique='abstract interpretation of Open.parse (result dictionary on every normal path), struct-format agreement between parse and construct of each message, finite partition of KEEPALIVE body lengths, capability code tables vs IANA and encoder/decoder branch sets',
   text='Static rule discharge: Open.parse returns the dictionary with and without optional parameters, the fixed parts use the same formats and offsets both ways, KEEPALIVE is 19 octets and only an empty body is accepted, capability constants equal the IANA codes and every emitted capability has an encoder and a decoder branch, unknown codes are kept. Value equality is not decided. Added: the capability dispatch is total over codes 0..255 (finite partition); NOTIFICATION construct packs the code/subcode/data given on every path. No comparison in these codecs splits a range between 2^k-2 and 2^k-1 (AS 65535 is a 2-octet AS). Open.parse leaves the hold-time field unconstrained (the codec accepts 0..65535). Record loops of Open.parse advance by the record size (no running counter in the stride); Opt Parm Len agrees with what follows; no signed struct code. The two address-family name tables are inverse bijections (R14.e).',
   design='DESIGN.md section 3 C14',
   note='Trusted: IANA table in sa/rules/c14.py.'),
 'C15': dict(
   technique='AST dataflow rules over all 41 decoder loops: window discipline (no unbounded cursor suffix to an element decoder once the extent is known), no whole-buffer predicate, no loop-carried variable (def-use order), branch read/write independence of parse_attributes with the deferred BGP-LS consumer, ord-of-int-index scan',
   text='Static rule discharge of the structural conditions that make list decoding compositional and attribute order irrelevant. Three known findings (label stack window x2, ::/0 pair). Equality on concrete pools is not decided. Added: result lists are write-only inside decoder loops; a loop test len(cursor) > K must not stop while a minimal element still fits. Loop-carried state is decided path-sensitively (must-definition walk of one iteration); no type branch of parse_attributes rebinds a session parameter. The cursor stride does not depend on a loop-carried counter; elements are complete when appended; the remembered BGP-LS protocol id is only overwritten under a test that the NLRI carries one.',
   design='DESIGN.md section 3 C15',
   note='Syntactic def-use on loop bodies; comprehension variables excluded.'),
 'C16': dict(
   technique='decorator-stack rule over every Flask route (AST), shape rules for the password callback and the establishment gate, reachability of BGP sends through yabgp.api.utils, forwarded-argument dataflow of the update view',
   text='Static rule discharge: every /peer/ route has auth.login_required directly inside blueprint.route, the password callback returns the configured password only for the configured user, every view that can reach a BGP send is gated by makesure_peer_establish (which calls the view only for Established), the update view forwards NLRI/withdraw unchanged and touches attributes only as documented, and success is reported only from the send result on the tracked protocol. Flask / Flask-HTTPAuth semantics are trusted. Added: no /peer/ route hands OPTIONS to the view (Flask-HTTPAuth does not authenticate OPTIONS). api.utils.send_update hands attr/nlri/withdraw to protocol.send_update unchanged on every path; gate and readiness predicate are judged by structural path conditions, so guard clauses and named locals do not matter. json_to_bin applies the same LOCAL_PREF guard; BGP.send_route_refresh writes the requested afi/res/safi on every path.',
   design='DESIGN.md section 3 C16',
   note='Trusted: Flask decorator order semantics, HTTPBasicAuth.get_password / login_required.'),
 'C17': dict(
   technique='table closure over folded constant tables and the if/elif chains of decoder, encoder and both REST views; structural comparison of the two recombination copies; normaliser/lookup agreement for well-known names; abstract interpretation of ExtCommunity.construct per code for the 8-octet size',
   text='Static rule discharge of necessary conditions: every text name the decoder renders is translated by both views to a code the encoder handles, the name tables are inverse, the two view copies have identical arms, every well-known community name survives the encoder lookup, no decoder path raises on every input, every code encodes to 8 octets. Value-level identity of the text is not decided. Added: per extended-community code the decoder reads every value octet in which the encoder places a non-constant; raise-guards of the community encoders do not reject the largest value of a field. The boundary rule also covers the REST recombination code (65535 is a 2-octet AS administrator). No signed struct code in the community codecs. The boundary rule also reports a threshold one above 2**(8n).',
   design='DESIGN.md section 3 C17',
   note='Trusted: constant folding of yabgp/common/constants.py by sa/front.py.'),
 'C19': dict(
   technique='per-item case analysis by abstract interpretation of each RIB / version updater on a one-element update with an open table (path per present/absent/equal case, concrete counter deltas and recorded mutations), table rows for the flush, guard/dominance and who-may-write AST rules',
   text='Static rule discharge: for the two IPv4 RIB updaters and the flowspec/VPN version updaters (both directions) every case of the per-item table moves the counter and the table exactly as the model requires, withdrawals precede announcements, both RIBs are reset on every connectionMade/connectionLost path, and the RIB is reached only by well-formed IPv4 UPDATEs under the option. By induction over items and updates this gives the history property for the dictionary model. Added: rule tables are stored/removed exactly with the version move; the family tests compare afi_safi with the representation their producer yields (4 known findings: the receive side compares the decoder\'s tuple with list literals, so received flowspec/VPNv4 versions never move). Every write to the attributes in the REST view precedes the Adj-RIB-Out / version bookkeeping. The REST helper forwards the request unfiltered to the Adj-RIB-Out update; init_rib builds two independent tables. The version updaters are analysed with the family handed over in both sequence kinds (list and tuple).',
   design='DESIGN.md section 3 C19',
   note='Same trusted base as C01; the radix tree mirror is outside the statement.'),
 'C20': dict(
   technique='AST must-call / pairing rules on DefaultHandler (one write_msg per callback, write-flush-fsync-increment pairing and order), bytes-payload source scan over the decoders, recovery-path exit and rotation rules',
   text='Static rule discharge of the structural conditions; crash points cannot be enumerated statically. What holds: one line per event with keys t/seq/type/msg, flush+fsync and exactly one sequence increment per line, no other writer, resume at recovered+1 in append mode. What fails today (6 known findings): the record is streamed with json.dump (not atomic), decoders can put bytes into the payload, recovery exits on a torn tail, recovery ignores all but the newest file. Added: no return/raise before the single write_msg of a callback; recovery does not look for the last line in a window of fixed size. write_msg calls nothing that replaces the per-peer file entry while it holds the fetched handle. The storing side of the per-peer tables uses the lower-cased key; list-format lines are read as Python literals. The keepalive line depends on the option only; the newest file is chosen by lexicographic / numeric order.',
   design='DESIGN.md section 3 C20',
   note='A crash-point enumeration is outside this technique; the atomic-line and recovery rules are necessary conditions of the crash clauses.'),
}

NOT_APPLICABLE = {}
PENDING = 'check not built yet in this revision of /verif (design in DESIGN.md section 3); listed here so the manifest stays truthful'

def main():
    checks = []
    for pid in sorted(CHECKS):
        c = CHECKS[pid]
        checks.append({
            'property_id': pid,
            'quick_cmd': 'python3 sa/check.py %s --tier quick' % pid,
            'thorough_cmd': 'python3 sa/check.py %s --tier thorough' % pid,
            'evidence_file': 'evidence/%s.json' % pid,
            'replay_cmd_template': 'python3 sa/check.py %s --tier quick  # replay file {path} names rule, instance, file:line' % pid,
            'engine': 'sa',
            'level_claimed': {'category': 'other', 'text': c['text'], 'design_ref': c['design']},
            'level_note': c['note'],
            'technique': c['technique'],
        })
    m = {
        'version': 1,
        'setup_cmd': 'true',
        'hooks': {
            'guard': 'YABGP_VERIF',
            'enable': 'no hooks: every check reads the source of /repo only (ast), nothing is built or run',
            'baseline_off_cmd': 'cd /repo && /venv/bin/python -m pytest -ra -q -p no:cacheprovider --timeout=900 --continue-on-collection-errors',
            'source_commits': [l.split()[0] for l in FIXES],
            'add_only': True,
        },
        'engines': [{'name': 'sa', 'path': 'sa/', 'serves_properties': sorted(CHECKS),
                     'kind_free_text': 'pure-stdlib static analyser for yabgp: resolved program model, forking abstract interpreter with intervals, reaction-table extractor, per-property rule modules (sa/rules), oracle tables (sa/profile.py ...)'}],
        'checks': checks,
        'notes': 'source_commits lists the unguarded fix: commits in /repo (genuine defects, see known_findings.json); there are no instrumentation hooks. Thorough tier = quick rules + checker self-test (selftest/run.py: mutants must fire, refactor twins stay silent).',
        'not_applicable': [{'property_id': k, 'reason': v} for k, v in sorted(NOT_APPLICABLE.items())] +
                          [{'property_id': 'C%02d' % i, 'reason': PENDING} for i in range(1, 21)
                           if 'C%02d' % i not in CHECKS and 'C%02d' % i not in NOT_APPLICABLE],
    }
    with open(os.path.join(HERE, 'MANIFEST.json'), 'w') as f:
        json.dump(m, f, indent=1)

if __name__ == '__main__':
    main()
