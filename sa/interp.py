"""Forking abstract interpreter over the repo's AST.

Not an execution of yabgp: values are abstract (constants, interval-constrained symbols,
heap objects of known class, opaque values named by their access path, symbolic byte
strings).  Unknown conditions fork the path (recorded with their text); comparisons of a
symbol with constants refine its interval, so `> 0`, `!= 0` and truthiness of the same
non-negative symbol are one atom.  No solver.  Loops over unknown collections are
abstracted (0 and 1 iteration, flag 'loop-abstracted'); `while` loops are unrolled at most
WHILE_UNROLL times (flag 'while-truncated').
"""
import ast

from .front import ClassInfo, FuncInfo, Module, External, NotConst, AnalysisError, src_of
from .values import (V, Const, Sym, Opaque, Obj, FuncV, ClassV, ModV, TupleV, BytesV, HObj,
                     Action, State, INF)
from . import prims

MAX_DEPTH = 14
WHILE_UNROLL = 2


def bind(results, fn):
    out = []
    for k, v, s in results:
        if k == 'val':
            out.extend(fn(v, s))
        else:
            out.append((k, v, s))
    return out


class Interp(object):
    def __init__(self, prog, max_paths=60000):
        self.prog = prog
        self.max_paths = max_paths
        self.npaths = 0
        self.prim_classes = {}      # ClassInfo.qualname -> handler(interp, st, obj, meth, args, kwargs, line)
        self.opaque_funcs = set()   # qualnames never inlined
        self.attr_hook = None       # fn(interp, st, base, attr) -> V | None
        self.call_hook = None       # fn(interp, st, fv, args, kwargs, line) -> results | None
        self.log_names = ('LOG', 'log', 'logging')
        self.while_unroll = WHILE_UNROLL
        self.merge_loops = False
        self.merge_ignore_actions = False
        self.unique_opaque_calls = False
        self.max_depth = MAX_DEPTH
        self.loop_hook = None
        self.record_enter = False
        self.unpack_may_raise = False
        self.opaque_funcs_may_raise = set()
        self.merge_call_prefixes = ()
        self.base_counter = 0

    # ------------------------------------------------------------------ helpers
    def _count(self, n=1):
        self.npaths += n
        if self.npaths > self.max_paths:
            raise AnalysisError('path budget exceeded (%d)' % self.max_paths)

    def cur_module(self, st):
        f = st.cur_func()
        return f.module if f else None

    def cur_cls(self, st):
        f = st.cur_func()
        return f.cls if f else None

    def wrap_entity(self, r, st):
        """front.resolve_* result -> V (or None)."""
        if r is None:
            return None
        if isinstance(r, ClassInfo):
            return ClassV(r)
        if isinstance(r, FuncInfo):
            return FuncV(r)
        if isinstance(r, (Module, External)):
            return ModV(r)
        if isinstance(r, tuple) and r[0] in ('assign', 'classattr'):
            owner = r[1]
            mod = owner.module if isinstance(owner, ClassInfo) else owner
            cls = owner if isinstance(owner, ClassInfo) else None
            if id(r[2]) in self.prog.mutated_containers():
                return Opaque('registry %s:%s' % (getattr(owner, 'qualname', None) or owner.name, src_of(r[2])))
            try:
                return self.lift(self.prog.fold(r[2], mod, cls))
            except NotConst:
                pass
            # alias to another entity (CONF = cfg.CONF, FSM = FSM, protocol = BGP)
            e = self.prog.resolve_expr(r[2], mod, cls)
            if e is not None and not (isinstance(e, tuple)):
                return self.wrap_entity(e, st)
            if isinstance(e, tuple):
                return self.wrap_entity(e, st)
            return Opaque('%s:%s' % (getattr(owner, 'qualname', None) or owner.name, src_of(r[2])))
        return None

    def lift(self, pyval):
        if isinstance(pyval, V):
            return pyval
        return Const(pyval)

    # ------------------------------------------------------------------ expressions
    def ev(self, e, st):
        m = getattr(self, 'ev_' + type(e).__name__, None)
        if m is None:
            return [('val', Opaque('expr:' + src_of(e)), st)]
        return m(e, st)

    def ev_list(self, exprs, st):
        res = [('val', [], st)]
        for e in exprs:
            def step(acc, s, e=e):
                return bind(self.ev(e, s), lambda v, s2: [('val', acc + [v], s2)])
            res = bind(res, step)
        return res

    def ev_Constant(self, e, st):
        if isinstance(e.value, bytes):
            return [('val', BytesV([('lit', e.value)]) if False else Const(e.value), st)]
        return [('val', Const(e.value), st)]

    def ev_Name(self, e, st):
        env = st.env
        if e.id in env:
            return [('val', env[e.id], st)]
        if e.id in ('True', 'False', 'None'):
            return [('val', Const({'True': True, 'False': False, 'None': None}[e.id]), st)]
        mod = self.cur_module(st)
        if mod is not None:
            r = self.prog.resolve_name(e.id, mod)
            v = self.wrap_entity(r, st)
            if v is not None:
                return [('val', v, st)]
        if e.id in prims.BUILTINS:
            return [('val', Opaque('builtin:' + e.id), st)]
        return [('val', Opaque('name:' + e.id), st)]

    def ev_Attribute(self, e, st):
        return bind(self.ev(e.value, st), lambda b, s: self.get_attr(b, e.attr, s, e))

    def get_attr(self, b, attr, st, node=None):
        if isinstance(b, prims.SuperV):
            return [('val', prims.super_attr(self, b, attr, st), st)]
        if isinstance(b, Obj):
            h = st.heap[b.oid]
            if h.kind == 'inst':
                if attr in h.fields:
                    return [('val', h.fields[attr], st)]
                cls = h.cls
                if isinstance(cls, ClassInfo):
                    f = cls.find_method(attr)
                    if f is not None:
                        if f.kind == 'property':
                            return self.call_func(FuncV(f, b), [], {}, st, getattr(node, 'lineno', None))
                        if f.kind == 'staticmethod':
                            return [('val', FuncV(f), st)]
                        if f.kind == 'classmethod':
                            return [('val', FuncV(f, ClassV(cls)), st)]
                        return [('val', FuncV(f, b), st)]
                    c, ex = cls.find_attr(attr)
                    if ex is not None:
                        v = self.wrap_entity(('classattr', c, ex), st)
                        if v is not None:
                            return [('val', v, st)]
                v = Opaque('%s.%s' % (b.oid, attr))
                h.fields[attr] = v
                return [('val', v, st)]
            # list / dict methods are handled at call time
            return [('val', Opaque('%s.%s' % (b.oid, attr)), st)]
        if isinstance(b, ClassV):
            r = self.prog.resolve_member(b.cinfo, attr)
            if isinstance(r, FuncInfo):
                if r.kind == 'classmethod':
                    return [('val', FuncV(r, b), st)]
                return [('val', FuncV(r), st)]
            v = self.wrap_entity(r, st)
            if v is not None:
                return [('val', v, st)]
            return [('val', Opaque('%s.%s' % (b.cinfo.qualname, attr)), st)]
        if isinstance(b, ModV):
            if isinstance(b.mod, Module):
                r = self.prog.resolve_member(b.mod, attr)
                v = self.wrap_entity(r, st)
                if v is not None:
                    return [('val', v, st)]
                return [('val', Opaque('%s.%s' % (b.mod.name, attr)), st)]
            if self.attr_hook is not None:
                hv = self.attr_hook(self, st, b, attr)
                if hv is not None:
                    return [('val', hv, st)]
            return [('val', ModV(External(b.mod.dotted + '.' + attr)), st)]
        if isinstance(b, Const) and isinstance(b.value, dict) and attr == 'get':
            return [('val', prims.ConstDictGet(b.value), st)]
        if isinstance(b, Const) and b.value is None and not attr.startswith('__'):
            return [('raise', Opaque("AttributeError('NoneType' object has no attribute %r)" % attr), st)]
        if isinstance(b, Const) and isinstance(b.value, (str, bytes)) and attr in prims.ConstMethod.SAFE:
            return [('val', prims.ConstMethod(b.value, attr), st)]
        if isinstance(b, Const) and isinstance(b.value, int) and not isinstance(b.value, bool) and \
                attr in ('bit_length', 'to_bytes'):
            return [('val', prims.ConstMethod(b.value, attr), st)]
        if isinstance(b, Const) and attr == 'packed':
            return [('val', Opaque(b.desc() + '.packed', 'bytes'), st)]
        return [('val', Opaque('%s.%s' % (b.desc(), attr), 'bytes' if attr == 'packed' else None), st)]

    def ev_Tuple(self, e, st):
        return bind(self.ev_list(e.elts, st), lambda vs, s: [('val', self.mk_tuple(vs), s)])

    def mk_tuple(self, vs):
        if all(isinstance(v, Const) for v in vs):
            return Const(tuple(v.value for v in vs))
        return TupleV(vs)

    def ev_List(self, e, st):
        def mk(vs, s):
            o = s.new_obj('list', hint='list')
            s.heap[o.oid].items = list(vs)
            return [('val', o, s)]
        return bind(self.ev_list(e.elts, st), mk)

    def ev_Dict(self, e, st):
        if any(k is None for k in e.keys):
            return [('val', Opaque('dict**:' + src_of(e)), st)]

        def mk(vs, s):
            n = len(e.keys)
            ks, vals = vs[:n], vs[n:]
            o = s.new_obj('dict', hint='dict')
            h = s.heap[o.oid]
            for k, v in zip(ks, vals):
                if isinstance(k, Const):
                    try:
                        h.items[k.value] = v
                    except TypeError:
                        h.open = True
                else:
                    h.open = True
            return [('val', o, s)]
        return bind(self.ev_list(list(e.keys) + list(e.values), st), mk)

    def ev_DictComp(self, e, st):
        o = st.new_obj('dict', hint='dict')
        st.heap[o.oid].open = True
        return [('val', o, st)]

    def ev_ListComp(self, e, st):
        o = st.new_obj('list', hint='list')
        st.heap[o.oid].open = True
        return [('val', o, st)]

    def ev_JoinedStr(self, e, st):
        return [('val', Opaque('fstr:' + src_of(e), 'str'), st)]

    def ev_IfExp(self, e, st):
        out = []
        for t, s in self.truth_expr(e.test, st):
            if t == 'raise':
                out.append(s)
            elif t:
                out.extend(self.ev(e.body, s))
            else:
                out.extend(self.ev(e.orelse, s))
        return out

    def ev_Lambda(self, e, st):
        return [('val', Opaque('lambda:' + src_of(e)), st)]

    def ev_UnaryOp(self, e, st):
        if isinstance(e.op, ast.Not):
            out = []
            for t, s in self.truth_expr(e.operand, st):
                if t == 'raise':
                    out.append(s)
                else:
                    out.append(('val', Const(not t), s))
            return out
        return bind(self.ev(e.operand, st), lambda v, s: [('val', prims.unop(self, e.op, v, s), s)])

    def ev_BinOp(self, e, st):
        return bind(self.ev_list([e.left, e.right], st),
                    lambda vs, s: [('val', prims.binop(self, e.op, vs[0], vs[1], s, e), s)])

    def ev_BoolOp(self, e, st):
        # short-circuit with forks; the value is the deciding operand
        is_and = isinstance(e.op, ast.And)
        res = []

        def go(i, s):
            if i == len(e.values) - 1:
                res.extend(self.ev(e.values[i], s))
                return
            for r in self.ev(e.values[i], s):
                if r[0] != 'val':
                    res.append(r)
                    continue
                v, s1 = r[1], r[2]
                for t, s2 in self.truth(v, s1, src_of(e.values[i]), getattr(e, 'lineno', None)):
                    if t == is_and:
                        go(i + 1, s2)
                    else:
                        # `x or default` with a truthy x is x itself (its kind matters to the consumer)
                        keep = not isinstance(v, (Sym, Opaque)) or (t and not is_and and isinstance(v, Opaque))
                        res.append(('val', v if keep else Const(t), s2))
        go(0, st)
        return res

    def ev_Compare(self, e, st):
        def step(vs, s):
            out = []

            def go(i, s1):
                if i == len(e.ops):
                    out.append(('val', Const(True), s1))
                    return
                for t, s2 in prims.compare(self, e.ops[i], vs[i], vs[i + 1], s1, e):
                    if t:
                        go(i + 1, s2)
                    else:
                        out.append(('val', Const(False), s2))
            go(0, s)
            return out
        return bind(self.ev_list([e.left] + list(e.comparators), st), step)

    def ev_Subscript(self, e, st):
        if isinstance(e.slice, ast.Slice):
            parts = [e.value] + [x for x in (e.slice.lower, e.slice.upper, e.slice.step)]

            def step(vs, s):
                return [('val', prims.slice_(self, vs[0], vs[1], vs[2], vs[3], s, e), s)]
            exprs = [p if p is not None else ast.Constant(None) for p in parts]
            return bind(self.ev_list(exprs, st), step)
        return bind(self.ev_list([e.value, e.slice], st),
                    lambda vs, s: self.get_item(vs[0], vs[1], s, e))

    def get_item(self, b, k, st, node=None):
        if getattr(self, 'record_slices', False) and isinstance(b, BytesV) and isinstance(k, Const) and \
                isinstance(k.value, int) and all(p[0] in ('lit', 'fix') for p in b.parts):
            # an octet read by index counts as a use of that octet
            one = prims._cut_recorded(self, b, k.value, (k.value + 1) or None, st, node)
            prims.record_uses(self, [one], st, getattr(node, 'lineno', None))
        if isinstance(b, Obj):
            h = st.heap[b.oid]
            if h.kind == 'dict' and isinstance(k, Const):
                try:
                    if k.value in h.items:
                        return [('val', h.items[k.value], st)]
                except TypeError:
                    pass
                if not h.open:
                    exc = Opaque('KeyError(%s)' % k.desc())
                    return [('raise', exc, st)]
                v = Opaque('%s[%s]' % (b.oid, k.desc()))
                h.items[k.value] = v
                return [('val', v, st)]
            if h.kind == 'list' and isinstance(k, Const) and isinstance(k.value, int) and not h.open:
                try:
                    return [('val', h.items[k.value], st)]
                except IndexError:
                    return [('raise', Opaque('IndexError'), st)]
            return [('val', Opaque('%s[%s]' % (b.oid, k.desc())), st)]
        if isinstance(b, TupleV) and isinstance(k, Const) and isinstance(k.value, int):
            try:
                return [('val', b.items[k.value], st)]
            except IndexError:
                return [('raise', Opaque('IndexError'), st)]
        if isinstance(b, Const) and isinstance(k, Const):
            try:
                return [('val', self.lift(b.value[k.value]), st)]
            except Exception as ex:
                return [('raise', Opaque(type(ex).__name__), st)]
        if isinstance(b, Const) and isinstance(b.value, dict) and isinstance(k, (Sym, Opaque)):
            return [('val', Opaque('%s[%s]' % ('constdict', k.desc())), st)]
        if isinstance(b, BytesV) and isinstance(k, Const) and isinstance(k.value, int) and k.value >= 0:
            off = k.value
            for p in b.parts:
                if p[0] == 'lit':
                    if off < len(p[1]):
                        return [('val', Const(p[1][off]), st)]
                    off -= len(p[1])
                else:
                    break
        kind = 'int' if (isinstance(b, (BytesV,)) or getattr(b, 'kind', None) == 'bytes') else None
        v = Opaque('%s[%s]' % (b.desc(), k.desc()), kind)
        if kind == 'int':
            name = v.d
            v = Sym(name, ('byteindex', [b, k]))
            st.cons.setdefault(name, (0, 255, frozenset()))
        return [('val', v, st)]

    def ev_Call(self, e, st):
        # logging calls are skipped entirely (arguments are not evaluated: they have no effect
        # on the session and only add forks)
        f = e.func
        if isinstance(f, ast.Attribute) and isinstance(f.value, ast.Name) and f.value.id in self.log_names:
            return [('val', Const(None), st)]
        line = getattr(e, 'lineno', None)
        if any(isinstance(a, ast.Starred) for a in e.args) or any(k.arg is None for k in e.keywords):
            return bind(self.ev(f, st),
                        lambda fv, s: self.call_opaque(fv, [Opaque('*args')], {}, s, line, e))
        kwnames = [k.arg for k in e.keywords]

        def step(vs, s):
            fv = vs[0]
            args = vs[1:1 + len(e.args)]
            kwargs = dict(zip(kwnames, vs[1 + len(e.args):]))
            return self.call(fv, args, kwargs, s, line, e)
        return bind(self.ev_list([f] + list(e.args) + [k.value for k in e.keywords], st), step)

    # ------------------------------------------------------------------ calls
    def call(self, fv, args, kwargs, st, line=None, node=None):
        if self.call_hook is not None:
            r = self.call_hook(self, st, fv, args, kwargs, line, node)
            if r is not None:
                return r
        if isinstance(fv, FuncV):
            if fv.finfo.qualname in self.opaque_funcs:
                if self.record_enter:
                    st.actions.append(Action('enter', fv.selfv.desc() if fv.selfv is not None else '',
                                             fv.finfo.qualname, args, kwargs, line,
                                             getattr(st.cur_func(), 'qualname', None)))
                res = self.call_opaque(fv, args, kwargs, st, line, node)
                if fv.finfo.qualname in self.opaque_funcs_may_raise:
                    s2 = st.fork()
                    self._count()
                    s2.flags.add('opaque-raise@%s' % fv.finfo.qualname)
                    res = res + [('raise', Opaque('Exception(raised inside %s)' % fv.finfo.qualname), s2)]
                return res
            return self.call_func(fv, args, kwargs, st, line)
        if isinstance(fv, ClassV):
            return self.instantiate(fv.cinfo, args, kwargs, st, line)
        r = prims.call_prim(self, fv, args, kwargs, st, line, node)
        if r is not None:
            return r
        return self.call_opaque(fv, args, kwargs, st, line, node)

    def call_opaque(self, fv, args, kwargs, st, line=None, node=None):
        d = fv.desc()
        target, _, meth = d.rpartition('.')
        if getattr(self, 'record_slices', False):
            prims.record_uses(self, args, st, line)
        st.actions.append(Action('call', target, meth, args, kwargs, line,
                                 getattr(st.cur_func(), 'qualname', None)))
        kind = 'bytes' if meth in ('encode', 'a2b_hex', 'unhexlify', 'to_bytes', 'join') and \
            (meth != 'join' or target.startswith("b'")) else None
        if self.unique_opaque_calls and (isinstance(fv, FuncV) or self.unique_opaque_calls == 'all'):
            st.counter += 1
            return [('val', Opaque('%s()#%d@%s' % (d, st.counter, line), kind), st)]
        if meth == 'encode':
            return [('val', Opaque('%s.encode(%s)' % (target, ', '.join(a.desc() for a in args)), 'bytes'), st)]
        if kind is None and d.startswith('registry '):
            owner = d[len('registry '):].split(':', 1)[0].rsplit('.', 1)[-1]
            if self.prog.registered_never_none(meth, owner):
                kind = 'obj'        # every class registered there returns a value from this method on every path
        return [('val', Opaque('%s()' % d, kind), st)]

    def instantiate(self, cinfo, args, kwargs, st, line=None):
        o = st.new_obj('inst', cinfo, hint=cinfo.name)
        init = cinfo.find_method('__init__')
        if init is None:
            return [('val', o, st)]
        return bind(self.call_func(FuncV(init, o), args, kwargs, st, line),
                    lambda _v, s: [('val', o, s)])

    def call_func(self, fv, args, kwargs, st, line=None):
        f = fv.finfo
        if len(st.frames) > self.max_depth:
            st.flags.add('depth-bound')
            return self.call_opaque(fv, args, kwargs, st, line)
        # recursion guard
        if sum(1 for fr in st.frames if fr.get('$func') is f) >= 2:
            st.flags.add('recursion-cut')
            return self.call_opaque(fv, args, kwargs, st, line)
        a = f.node.args
        params = [p.arg for p in a.args]
        frame = {'$func': f}
        actual = list(args)
        if fv.selfv is not None and f.kind != 'staticmethod':
            actual = [fv.selfv] + actual
        if len(actual) > len(params) and a.vararg is None:
            return [('raise', Opaque('TypeError(too many args to %s)' % f.qualname), st)]
        for p, v in zip(params, actual):
            frame[p] = v
        if a.vararg is not None:
            frame[a.vararg.arg] = TupleV(actual[len(params):])
        for k, v in kwargs.items():
            if k in params or any(k == ko.arg for ko in a.kwonlyargs):
                frame[k] = v
            elif a.kwarg is None:
                return [('raise', Opaque('TypeError(unexpected kw %s to %s)' % (k, f.qualname)), st)]
        # defaults
        ndef = len(a.defaults)
        missing = []
        for i, p in enumerate(params):
            if p not in frame:
                di = i - (len(params) - ndef)
                if di >= 0:
                    frame[p] = self.eval_default(a.defaults[di], f)
                else:
                    missing.append(p)
        if missing:
            return [('raise', Opaque('TypeError(missing %s for %s)' % (missing, f.qualname)), st)]
        for ko, d in zip(a.kwonlyargs, a.kw_defaults):
            if ko.arg not in frame and d is not None:
                frame[ko.arg] = self.eval_default(d, f)
        if self.record_enter:
            st.actions.append(Action('enter', fv.selfv.desc() if fv.selfv is not None else '',
                                     f.qualname, args, kwargs, line,
                                     getattr(st.cur_func(), 'qualname', None)))
        st.frames.append(frame)
        out = []
        for kind, v, s in self.exec_block(f.node.body, st):
            s.frames.pop()
            if kind == 'return':
                out.append(('val', v, s))
            elif kind == 'next':
                out.append(('val', Const(None), s))
            elif kind == 'raise':
                out.append(('raise', v, s))
            else:
                raise AnalysisError('break/continue escaped %s' % f.qualname)
        if self.merge_call_prefixes and f.qualname.startswith(self.merge_call_prefixes):
            out = merge_outcomes([o for o in out if o[0] != 'raise'], None, self.merge_ignore_actions) + \
                [o for o in out if o[0] == 'raise']
        return out

    def eval_default(self, d, f):
        try:
            return self.lift(self.prog.fold(d, f.module, f.cls))
        except NotConst:
            return Opaque('default:' + src_of(d))

    # ------------------------------------------------------------------ truthiness
    def truth_expr(self, e, st):
        """-> list of (True|False|'raise', state-or-result)."""
        out = []
        for r in self.ev(e, st):
            if r[0] != 'val':
                out.append(('raise', r))
                continue
            for t, s in self.truth(r[1], r[2], src_of(e), getattr(e, 'lineno', None)):
                out.append((t, s))
        return out

    def truth(self, v, st, text=None, line=None):
        t = prims.truth_static(self, v, st)
        if t is not None:
            return [(t, st)]
        fq = getattr(st.cur_func(), 'qualname', None)
        if isinstance(v, Sym):
            lo, hi, neq = st.interval(v.name)
            s1, s2 = st, st.fork()
            self._count()
            # true branch: != 0
            nlo, nhi = lo, hi
            if lo == 0:
                nlo = 1
            if hi == 0:
                nhi = -1
            s1.cons[v.name] = (nlo, nhi, neq | frozenset([0]))
            s1.path.append(('%s != 0' % v.name, True, line, fq))
            s2.cons[v.name] = (0, 0, neq)
            s2.path.append(('%s != 0' % v.name, False, line, fq))
            return [(True, s1), (False, s2)]
        key = 'truth(%s)' % v.desc()
        if key in st.atoms:
            return [(st.atoms[key], st)]
        s1, s2 = st, st.fork()
        self._count()
        s1.atoms[key] = True
        s1.path.append((key, True, line, fq))
        s2.atoms[key] = False
        s2.path.append((key, False, line, fq))
        return [(True, s1), (False, s2)]

    # ------------------------------------------------------------------ statements
    def exec_block(self, stmts, st):
        """-> list of (kind, value, state); kind in next/return/raise/break/continue."""
        res = [('next', None, st)]
        for stmt in stmts:
            nxt = []
            for k, v, s in res:
                if k == 'next':
                    nxt.extend(self.exec_stmt(stmt, s))
                else:
                    nxt.append((k, v, s))
            res = nxt
            if not any(k == 'next' for k, _, _ in res):
                break
        return res

    def exec_stmt(self, stmt, st):
        m = getattr(self, 'ex_' + type(stmt).__name__, None)
        if m is None:
            raise AnalysisError('statement kind %s not in vocabulary (%s:%s)' % (
                type(stmt).__name__, getattr(st.cur_func(), 'qualname', '?'), getattr(stmt, 'lineno', '?')))
        return m(stmt, st)

    def _vals(self, results, fn):
        """results of ev -> statement outcomes; fn(v, s) -> outcomes."""
        out = []
        for k, v, s in results:
            if k == 'val':
                out.extend(fn(v, s))
            else:
                out.append(('raise', v, s))
        return out

    def ex_Expr(self, stmt, st):
        return self._vals(self.ev(stmt.value, st), lambda v, s: [('next', None, s)])

    def ex_Pass(self, stmt, st):
        return [('next', None, st)]

    def ex_Import(self, stmt, st):
        return [('next', None, st)]

    ex_ImportFrom = ex_Import
    ex_Global = ex_Import
    ex_Nonlocal = ex_Import

    def ex_Assert(self, stmt, st):
        return [('next', None, st)]

    def ex_Delete(self, stmt, st):
        for t in stmt.targets:
            if isinstance(t, ast.Name):
                st.env.pop(t.id, None)
            else:
                st.actions.append(Action('write', 'del', src_of(t), [], None, stmt.lineno,
                                         getattr(st.cur_func(), 'qualname', None)))
        return [('next', None, st)]

    def ex_Return(self, stmt, st):
        if stmt.value is None:
            return [('return', Const(None), st)]
        return self._vals(self.ev(stmt.value, st), lambda v, s: [('return', v, s)])

    def ex_Raise(self, stmt, st):
        if stmt.exc is None:
            cur = None
            for fr in reversed(st.frames):
                if '$exc' in fr:
                    cur = fr['$exc']
                    break
            return [('raise', cur or Opaque('reraise'), st)]

        def mk(v, s):
            if isinstance(v, ClassV):
                return self._vals(self.instantiate(v.cinfo, [], {}, s, stmt.lineno),
                                  lambda o, s2: [('raise', o, s2)])
            return [('raise', v, s)]
        return self._vals(self.ev(stmt.exc, st), mk)

    def ex_Assign(self, stmt, st):
        def do(v, s):
            res = [('next', None, s)]
            for t in stmt.targets:
                nxt = []
                for k, x, s1 in res:
                    if k == 'next':
                        nxt.extend(self.assign(t, v, s1, stmt))
                    else:
                        nxt.append((k, x, s1))
                res = nxt
            return res
        return self._vals(self.ev(stmt.value, st), do)

    def ex_AnnAssign(self, stmt, st):
        if stmt.value is None:
            return [('next', None, st)]
        return self._vals(self.ev(stmt.value, st), lambda v, s: self.assign(stmt.target, v, s, stmt))

    def ex_AugAssign(self, stmt, st):
        load = copy_load(stmt.target)

        def do(vs, s):
            nv = prims.binop(self, stmt.op, vs[0], vs[1], s, stmt)
            return self.assign(stmt.target, nv, s, stmt, aug=True)
        return self._vals(self.ev_list([load, stmt.value], st), do)

    def assign(self, t, v, st, stmt, aug=False):
        line = getattr(stmt, 'lineno', None)
        fq = getattr(st.cur_func(), 'qualname', None)
        if isinstance(t, ast.Name):
            st.env[t.id] = v
            return [('next', None, st)]
        if isinstance(t, (ast.Tuple, ast.List)):
            items = prims.unpack_iter(self, v, len(t.elts), st)
            if items is None:
                return [('raise', Opaque('ValueError(unpack)'), st)]
            res = [('next', None, st)]
            for tt, iv in zip(t.elts, items):
                nxt = []
                for k, x, s1 in res:
                    if k == 'next':
                        nxt.extend(self.assign(tt, iv, s1, stmt))
                    else:
                        nxt.append((k, x, s1))
                res = nxt
            return res
        if isinstance(t, ast.Attribute):
            def do(b, s):
                return self.set_attr(b, t.attr, v, s, line, fq, aug)
            return self._vals(self.ev(t.value, st), do)
        if isinstance(t, ast.Subscript):
            if isinstance(t.slice, ast.Slice):
                st.flags.add('slice-assign')
                return [('next', None, st)]

            def do(vs, s):
                b, k = vs
                if isinstance(b, Obj):
                    h = s.heap[b.oid]
                    if h.kind == 'dict':
                        if isinstance(k, Const):
                            try:
                                h.items[k.value] = v
                            except TypeError:
                                h.open = True
                        else:
                            h.open = True
                        s.writes.append((b.oid, '[%s]' % k.desc(), v, line, fq))
                        return [('next', None, s)]
                    if h.kind == 'list':
                        if isinstance(k, Const) and isinstance(k.value, int) and not h.open \
                                and -len(h.items) <= k.value < len(h.items):
                            h.items[k.value] = v
                        else:
                            h.open = True
                        return [('next', None, s)]
                s.actions.append(Action('write', b.desc(), '[%s]' % k.desc(), [v], None, line, fq))
                s.writes.append((b.desc(), '[%s]' % k.desc(), v, line, fq))
                return [('next', None, s)]
            return self._vals(self.ev_list([t.value, t.slice], st), do)
        raise AnalysisError('assignment target %s' % type(t).__name__)

    def set_attr(self, b, attr, v, st, line, fq, aug=False):
        if isinstance(b, Obj) and st.heap[b.oid].kind == 'inst':
            h = st.heap[b.oid]
            cls = h.cls
            sa = cls.find_method('__setattr__') if isinstance(cls, ClassInfo) else None
            if sa is not None:
                # user-defined __setattr__ (FSM): run it, its super().__setattr__ does the store
                return self._vals(self.call_func(FuncV(sa, b), [Const(attr), v], {}, st, line),
                                  lambda _v, s: [('next', None, s)])
            h.fields[attr] = v
            st.writes.append((b.oid, attr, v, line, fq))
            return [('next', None, st)]
        st.actions.append(Action('write', b.desc(), attr, [v], None, line, fq))
        st.writes.append((b.desc(), attr, v, line, fq))
        return [('next', None, st)]

    def ex_If(self, stmt, st):
        out = []
        for t, s in self.truth_expr(stmt.test, st):
            if t == 'raise':
                out.append(('raise', s[1], s[2]))
            elif t:
                out.extend(self.exec_block(stmt.body, s))
            else:
                out.extend(self.exec_block(stmt.orelse, s))
        return out

    def ex_While(self, stmt, st):
        out = []

        def loop(s, n):
            if self.loop_hook is not None:
                cur = self._cursor_vals(stmt, s)
                key = '$w%d' % id(stmt)
                if n == 0:
                    s.env[key] = cur
                else:
                    self.loop_hook(self, stmt, s.env.get(key), cur, s)
            for t, s1 in self.truth_expr(stmt.test, s):
                if t == 'raise':
                    out.append(('raise', s1[1], s1[2]))
                elif not t:
                    out.extend(self.exec_block(stmt.orelse, s1))
                else:
                    if n >= self.while_unroll:
                        s1.flags.add('while-truncated')
                        out.append(('next', None, s1))
                        continue
                    body = self.exec_block(stmt.body, s1)
                    if self.merge_loops:
                        body = merge_outcomes(body, None, self.merge_ignore_actions)
                    for k, v, s2 in body:
                        if k in ('next', 'continue'):
                            loop(s2, n + 1)
                        elif k == 'break':
                            out.append(('next', None, s2))
                        else:
                            out.append((k, v, s2))
        loop(st, 0)
        if self.merge_loops:
            out = merge_outcomes(out, None, self.merge_ignore_actions)
        return out

    def _cursor_vals(self, stmt, st):
        """Values of the candidate cursor expressions of a while loop (names / attribute chains
        of the test; for `while True` those of the tests guarding a break)."""
        tests = [stmt.test]
        if isinstance(stmt.test, ast.Constant):
            tests = []
            for n in ast.walk(ast.Module(body=stmt.body, type_ignores=[])):
                if isinstance(n, ast.If) and any(isinstance(b, ast.Break) for b in ast.walk(n)):
                    tests.append(n.test)
        out = {}
        for t in tests:
            for n in ast.walk(t):
                if isinstance(n, (ast.Name, ast.Attribute)) and isinstance(getattr(n, 'ctx', None), ast.Load):
                    src = src_of(n)
                    if src in out or src in ('len', 'True', 'False', 'None'):
                        continue
                    if isinstance(n, ast.Attribute) and any(
                            isinstance(p, ast.Attribute) and p.value is n for p in ast.walk(t)):
                        continue
                    if isinstance(n, ast.Name) and any(
                            isinstance(p, (ast.Attribute, ast.Call)) and
                            (getattr(p, 'value', None) is n or getattr(p, 'func', None) is n)
                            for p in ast.walk(t)):
                        continue
                    r = self.ev(n, st)
                    if len(r) == 1 and r[0][0] == 'val':
                        out[src] = r[0][1]
        return out

    def ex_For(self, stmt, st):
        def do(itv, s):
            items = prims.iter_items(self, itv, s)
            out = []
            if items is None:
                # unknown collection: 0 iterations, or 1 iteration with an opaque element
                s.flags.add('loop-abstracted')
                s0 = s.fork()
                self._count()
                out.extend(self.exec_block(stmt.orelse, s0))
                elem = Opaque('elem(%s)' % itv.desc())
                items = [elem]
            res = [('next', None, s)]
            for it in items:
                nxt = []
                for k, v, s1 in res:
                    if k != 'next':
                        nxt.append((k, v, s1))
                        continue
                    for k2, v2, s2 in self.assign(stmt.target, it, s1, stmt):
                        if k2 != 'next':
                            nxt.append((k2, v2, s2))
                            continue
                        body = self.exec_block(stmt.body, s2)
                        if self.merge_loops:
                            body = merge_outcomes(body, None, self.merge_ignore_actions)
                        for k3, v3, s3 in body:
                            if k3 == 'continue':
                                nxt.append(('next', None, s3))
                            elif k3 == 'break':
                                nxt.append(('$broken', None, s3))
                            else:
                                nxt.append((k3, v3, s3))
                res = nxt
            for k, v, s1 in res:
                if k == 'next':
                    out.extend(self.exec_block(stmt.orelse, s1))
                elif k == '$broken':
                    out.append(('next', None, s1))
                else:
                    out.append((k, v, s1))
            if self.merge_loops:
                out = merge_outcomes(out, None, self.merge_ignore_actions)
            return out
        return self._vals(self.ev(stmt.iter, st), do)

    def ex_Break(self, stmt, st):
        return [('break', None, st)]

    def ex_Continue(self, stmt, st):
        return [('continue', None, st)]

    def ex_With(self, stmt, st):
        res = [('next', None, st)]
        for item in stmt.items:
            nxt = []
            for k, v, s in res:
                if k != 'next':
                    nxt.append((k, v, s))
                    continue

                def do(cv, s1, item=item):
                    if item.optional_vars is not None:
                        return self.assign(item.optional_vars, Opaque('with(%s)' % cv.desc()), s1, stmt)
                    return [('next', None, s1)]
                nxt.extend(self._vals(self.ev(item.context_expr, s), do))
            res = nxt
        out = []
        for k, v, s in res:
            if k == 'next':
                out.extend(self.exec_block(stmt.body, s))
            else:
                out.append((k, v, s))
        return out

    def ex_Try(self, stmt, st):
        out = []
        for k, v, s in self.exec_block(stmt.body, st):
            if k == 'raise':
                handled = False
                for h in stmt.handlers:
                    m = self.handler_matches(h, v, s)
                    if m:
                        handled = True
                        if h.name:
                            s.env[h.name] = v
                        s.env['$exc'] = v
                        for k2, v2, s2 in self.exec_block(h.body, s):
                            s2.env.pop('$exc', None)
                            out.append((k2, v2, s2))
                        break
                if not handled:
                    out.append((k, v, s))
            elif k == 'next':
                out.extend(self.exec_block(stmt.orelse, s))
            else:
                out.append((k, v, s))
        if stmt.finalbody:
            fin = []
            for k, v, s in out:
                for k2, v2, s2 in self.exec_block(stmt.finalbody, s):
                    if k2 == 'next':
                        fin.append((k, v, s2))
                    else:
                        fin.append((k2, v2, s2))
            out = fin
        return out

    def handler_matches(self, h, exc, st):
        if h.type is None:
            return True
        types = h.type.elts if isinstance(h.type, ast.Tuple) else [h.type]
        mod, cls = self.cur_module(st), self.cur_cls(st)
        exc_cls = None
        if isinstance(exc, Obj) and st.heap[exc.oid].kind == 'inst':
            exc_cls = st.heap[exc.oid].cls
        for t in types:
            r = self.prog.resolve_expr(t, mod, cls) if mod else None
            name = src_of(t)
            if name in ('Exception', 'BaseException'):
                return True
            if isinstance(r, ClassInfo):
                if isinstance(exc_cls, ClassInfo) and exc_cls.is_subclass_of(r.qualname):
                    return True
            elif isinstance(exc, Opaque):
                # builtin / external exception classes are matched by name
                short = name.split('.')[-1]
                if exc.d.startswith(short):
                    return True
        return False

    def ex_FunctionDef(self, stmt, st):
        st.env[stmt.name] = Opaque('localfunc:' + stmt.name)
        return [('next', None, st)]

    def ex_ClassDef(self, stmt, st):
        st.env[stmt.name] = Opaque('localclass:' + stmt.name)
        return [('next', None, st)]

    # ------------------------------------------------------------------ entry
    def run(self, fv, args, kwargs, st):
        """Run a function value to completion on every path.  -> list of (kind, V, State)."""
        if not st.frames:
            st.frames.append({})
        return self.call(fv, args, kwargs, st)


def _fpv(v):
    if isinstance(v, Const):
        return ('c', repr(v.value))
    if isinstance(v, Obj):
        return ('o', v.oid)
    if isinstance(v, TupleV):
        return ('t',) + tuple(_fpv(x) for x in v.items)
    if isinstance(v, V):
        return ('v', type(v).__name__, v.desc())
    return ('p', repr(v))


def fingerprint(kind, val, st, base_counter=None, ignore_actions=False):
    """Observable part of an outcome: control, actions, fields of objects that existed
    before the event started (FSM, peering, protocol, timers, old containers).  Locals and
    objects allocated during the event are joined pointwise when outcomes are merged."""
    heap = []
    for oid in sorted(st.heap):
        h = st.heap[oid]
        if h.born > st.base:
            heap.append((oid, h.kind))
        elif h.kind == 'inst':
            heap.append((oid, 'inst', tuple(sorted((k, _fpv(v)) for k, v in h.fields.items()))))
        elif h.kind == 'list':
            heap.append((oid, 'list', h.open, tuple(_fpv(v) for v in h.items)))
        else:
            heap.append((oid, 'dict', h.open, tuple(sorted((repr(k), _fpv(v)) for k, v in h.items.items()))))
    frames = tuple(getattr(fr.get('$func'), 'qualname', None) for fr in st.frames)
    acts = () if ignore_actions else tuple(a.short() for a in st.actions)
    exc = None
    if kind == 'raise' and isinstance(val, Obj) and val.oid in st.heap:
        exc = tuple(sorted((k, _fpv(v)) for k, v in st.heap[val.oid].fields.items()
                           if isinstance(v, Const)))
    return (kind, _fpv(val) if val is not None else None, exc, tuple(heap), frames, acts,
            tuple(sorted(st.flags)))


def _join(name, a, b, ma=None, mb=None):
    if _fpv(a) == _fpv(b):
        return a
    if ma is not None and isinstance(a, (Sym, Const)) and isinstance(b, (Sym, Const)):
        ia, ib = prims.ival(a, ma), prims.ival(b, mb)
        if ia is not None and ib is not None:
            nm = 'join(%s|%s)' % (a.desc(), b.desc())
            ma.cons[nm] = (min(ia[0], ib[0]), max(ia[1], ib[1]), frozenset())
            return Sym(nm, ('join', [a, b]))
    kind = getattr(a, 'kind', None) if getattr(a, 'kind', None) == getattr(b, 'kind', None) else None
    return Opaque('join(%s)' % name, kind)


def merge_outcomes(outs, base_counter=None, ignore_actions=False):
    """Join outcomes that agree on everything observable; intervals are joined (hull),
    disagreeing atoms dropped, locals / young objects joined pointwise."""
    groups = {}
    order = []
    for kind, val, st in outs:
        fp = fingerprint(kind, val, st, None, ignore_actions)
        if fp not in groups:
            groups[fp] = [kind, val, st, 1]
            order.append(fp)
            continue
        g = groups[fp]
        m = g[2]
        g[3] += 1
        for name in set(m.cons) | set(st.cons):
            a = m.cons.get(name)
            b = st.cons.get(name)
            if a is None or b is None:
                m.cons[name] = a or b
                continue
            m.cons[name] = (min(a[0], b[0]), max(a[1], b[1]), a[2] & b[2])
        for k in list(m.atoms):
            if st.atoms.get(k) != m.atoms[k]:
                del m.atoms[k]
        n = 0
        while n < len(m.path) and n < len(st.path) and m.path[n] == st.path[n]:
            n += 1
        m.path = m.path[:n]
        m.flags.add('merged')
        for fr, fo in zip(m.frames, st.frames):
            for k in set(fr) | set(fo):
                if k != '$func':
                    if k in fr and k in fo:
                        fr[k] = _join(k, fr[k], fo[k], m, st)
                    else:
                        fr[k] = Opaque('join(%s)' % k)
        for oid, h in m.heap.items():
            if h.born <= m.base:
                continue
            o = st.heap[oid]
            if h.kind == 'inst':
                for k in set(h.fields) | set(o.fields):
                    if k in h.fields and k in o.fields:
                        h.fields[k] = _join('%s.%s' % (oid, k), h.fields[k], o.fields[k], m, st)
                    else:
                        h.fields[k] = Opaque('join(%s.%s)' % (oid, k))
            elif h.kind == 'list':
                if len(h.items) != len(o.items) or any(_fpv(x) != _fpv(y) for x, y in zip(h.items, o.items)):
                    h.open = True
                    h.items = []
                h.open = h.open or o.open
            else:
                keep = {k: v for k, v in h.items.items() if k in o.items and _fpv(o.items[k]) == _fpv(v)}
                if len(keep) != len(h.items) or len(keep) != len(o.items):
                    h.open = True
                h.items = keep
                h.open = h.open or o.open
        m.counter = max(m.counter, st.counter)
        m.syminfo.update(st.syminfo)
        for k in list(m.lin):
            if st.lin.get(k) != m.lin[k]:
                del m.lin[k]
    return [(groups[fp][0], groups[fp][1], groups[fp][2]) for fp in order]


def copy_load(t):
    """Target expression -> load expression."""
    n = ast.parse(src_of(t), mode='eval').body
    ast.copy_location(n, t)
    for sub in ast.walk(n):
        if not hasattr(sub, 'lineno'):
            sub.lineno = getattr(t, 'lineno', 0)
            sub.col_offset = 0
    return n
