"""Session-layer reaction-table extractor.

Builds the abstract world {BGPPeering, FSM, BGP protocol instance, timers, transport,
handler} by interpreting the repo's own constructors and wiring code, then interprets each
entry point (operator command, timer expiry, Twisted callback, wire message) from every
FSM state and records, per path: guards, ordered actions, final state.

Twisted model (trusted base, documented in DESIGN.md section 6):
  * Factory.buildProtocol(addr)  =  p = self.protocol(); p.factory = self; return p
  * reactor.callFromThread(f, *a) =  f(*a)   (same effect, later in the reactor thread)
  * reactor.connectTCP / transport.write / transport.loseConnection are recorded effects
  * BGPTimer.reset/cancel/active are primitives (their own shape is rule R03.g)
"""
import ast

from .front import AnalysisError, ClassInfo, External
from .values import (Const, Sym, Opaque, Obj, FuncV, ClassV, ModV, TupleV, BytesV, Action, State, INF)
from .interp import Interp
from . import prims

FSM_Q = 'yabgp.core.fsm.FSM'
PEERING_Q = 'yabgp.core.factory.BGPPeering'
BGP_Q = 'yabgp.core.protocol.BGP'
TIMER_Q = 'yabgp.core.timer.BGPTimer'
CONS_Q = 'yabgp.common.constants'

STATE_NAMES = ['ST_IDLE', 'ST_CONNECT', 'ST_ACTIVE', 'ST_OPENSENT', 'ST_OPENCONFIRM', 'ST_ESTABLISHED']
SHORT = {'ST_IDLE': 'Idle', 'ST_CONNECT': 'Connect', 'ST_ACTIVE': 'Active', 'ST_OPENSENT': 'OpenSent',
         'ST_OPENCONFIRM': 'OpenConfirm', 'ST_ESTABLISHED': 'Established'}


class World(object):
    pass


class SessionModel(object):
    def __init__(self, prog, max_paths=400000):
        self.prog = prog
        self.ip = Interp(prog, max_paths=max_paths)
        self.ip.call_hook = self._hook
        self.ip.attr_hook = self._attr_hook
        self.ip.while_unroll = 1
        self.ip.merge_loops = True
        self.ip.record_enter = True
        self.ip.unpack_may_raise = True
        self.ip.opaque_funcs_may_raise = {'yabgp.message.update.Update.parse',
                                          'yabgp.message.update.Update.construct'}
        self.ip.merge_call_prefixes = ('yabgp.message.',)
        self.ip.opaque_funcs = {'yabgp.message.update.Update.parse',
                                'yabgp.message.update.Update.construct',
                                'yabgp.core.factory.BGPPeering.get_tcp_md5sig',
                                'yabgp.message.open.Open.construct',
                                'yabgp.core.protocol.BGP.update_receive_verion',
                                'yabgp.core.protocol.BGP.update_rib_in_ipv4',
                                'yabgp.core.protocol.BGP.update_send_version',
                                'yabgp.core.protocol.BGP.update_rib_out_ipv4'}
        cm = prog.module(CONS_Q)
        if cm is None:
            raise AnalysisError('constants module vanished')
        self.states = {}
        for n in STATE_NAMES:
            if n not in cm.assigns:
                raise AnalysisError('state constant %s vanished' % n)
            self.states[SHORT[n]] = prog.fold(cm.assigns[n], cm)
        if len(set(self.states.values())) != 6:
            raise AnalysisError('state constants are not distinct')
        self.state_by_val = {v: k for k, v in self.states.items()}
        self.fsm_cls = prog.cls(FSM_Q)
        self.peering_cls = prog.cls(PEERING_Q)
        self.bgp_cls = prog.cls(BGP_Q)
        self.timer_cls = prog.cls(TIMER_Q)
        self.timer_names = {}      # oid -> short name (by callback)
        self.base = self._build_base()

    # ------------------------------------------------------------------ hooks
    def _attr_hook(self, ip, st, b, attr):
        # configured timer values are non-negative integers (oslo IntOpt, validated at start)
        if b.mod.dotted == 'oslo_config.cfg.CONF.time':
            hi = 65535 if attr == 'hold_time' else INF
            return prims.mk_sym(st, 'CONF.time.%s' % attr, 0, hi)
        return None

    def _hook(self, ip, st, fv, args, kwargs, line, node):
        fq = getattr(st.cur_func(), 'qualname', None)
        if isinstance(fv, FuncV) and fv.finfo.cls is not None and \
                fv.finfo.cls.qualname == TIMER_Q and fv.finfo.name in ('reset', 'cancel', 'active') \
                and isinstance(fv.selfv, Obj):
            tn = self.timer_names.get(fv.selfv.oid, fv.selfv.oid)
            st.actions.append(Action('timer', tn, fv.finfo.name, args, kwargs, line, fq))
            h = st.heap[fv.selfv.oid]
            if fv.finfo.name == 'reset':
                h.fields['status'] = Const(True)
                h.fields['$armed'] = Const('armed')
                return [('val', Const(None), st)]
            if fv.finfo.name == 'cancel':
                h.fields['$armed'] = Const('off')
                return [('val', Const(None), st)]
            arm = h.fields.get('$armed')
            if isinstance(arm, Const) and arm.value == 'off':
                return [('val', Const(False), st)]
            if isinstance(arm, Const) and arm.value == 'armed':
                return [('val', Const(True), st)]
            return [('val', Opaque('active(%s)' % tn), st)]
        name = prims.ext_name(fv)
        if name == 'twisted.internet.protocol.Factory.buildProtocol' and args:
            selfv = args[0]

            def mk(pcls, s):
                if not isinstance(pcls, ClassV):
                    raise AnalysisError('factory.protocol does not resolve to a class')

                def fin(p, s2):
                    s2.heap[p.oid].fields['factory'] = selfv
                    tr = s2.new_obj('inst', 'Transport', hint='transport')
                    s2.heap[p.oid].fields['transport'] = tr
                    return [('val', p, s2)]
                from .interp import bind
                return bind(ip.instantiate(pcls.cinfo, [], {}, s, line), fin)
            from .interp import bind
            return bind(ip.get_attr(selfv, 'protocol', st), mk)
        if name == 'twisted.internet.reactor.callFromThread' and args:
            st.actions.append(Action('call', 'reactor', 'callFromThread', args[1:], kwargs, line, fq))
            return ip.call(args[0], args[1:], kwargs, st, line, node)
        if name == 'twisted.internet.reactor.connectTCP':
            st.actions.append(Action('call', 'reactor', 'connectTCP', args, kwargs, line, fq))
            return [('val', Opaque('connector'), st)]
        if name in ('sys.exit',):
            st.actions.append(Action('call', 'sys', 'exit', args, kwargs, line, fq))
            return [('raise', Opaque('SystemExit'), st)]
        return None

    # ------------------------------------------------------------------ world
    def _build_base(self):
        ip = self.ip
        st = State()
        st.frames.append({})
        handler = st.new_obj('inst', 'Handler', hint='handler')
        kw = {'myasn': Opaque('cfg.my_asn', 'int'), 'myaddr': Opaque('cfg.my_addr'),
              'peerasn': Opaque('cfg.peer_asn', 'int'), 'peeraddr': Opaque('cfg.peer_addr'),
              'afisafi': Opaque('cfg.afi_safi'), 'md5': Const(None), 'handler': handler}
        res = ip.instantiate(self.peering_cls, [], kw, st)
        if len(res) != 1 or res[0][0] != 'val':
            raise AnalysisError('BGPPeering.__init__ is not straight-line (%d outcomes)' % len(res))
        peering, st = res[0][1], res[0][2]
        w = World()
        w.peering = peering.oid
        w.handler = handler.oid
        fsmv = st.heap[peering.oid].fields.get('fsm')
        if not isinstance(fsmv, Obj) or st.heap[fsmv.oid].cls is not self.fsm_cls:
            raise AnalysisError('BGPPeering.__init__ does not create its FSM (R01.e)')
        w.fsm = fsmv.oid
        fh = st.heap[w.fsm]
        if not (isinstance(fh.fields.get('bgp_peering'), Obj) and fh.fields['bgp_peering'].oid == w.peering):
            raise AnalysisError('FSM is not instantiated with its peering (R01.e)')
        # timers, identified by their callback
        w.timers = {}
        for fname, v in fh.fields.items():
            if isinstance(v, Obj) and st.heap[v.oid].cls is self.timer_cls:
                cb = st.heap[v.oid].fields.get('callable')
                if not isinstance(cb, FuncV):
                    raise AnalysisError('timer %s has no resolvable callback' % fname)
                short = cb.finfo.name.replace('_time_event', '').replace('_event', '')
                self.timer_names[v.oid] = short
                w.timers[short] = (v.oid, fname, cb.finfo)
        if len(w.timers) < 4:
            raise AnalysisError('fewer than 4 BGPTimers found in FSM.__init__')
        st.actions = []
        st.writes = []
        st.path = []
        self.world = w
        return st

    def fresh(self):
        return self.base.fork()

    def new_protocol(self, st, port=None):
        """Interpret peering.buildProtocol(addr): a new BGP instance wired as the repo wires it."""
        w = self.world
        addr = st.new_obj('inst', 'Address', hint='addr')
        cm = self.prog.module(CONS_Q)
        st.heap[addr.oid].fields['port'] = Const(self.prog.fold(cm.assigns['PORT'], cm) if port is None else port)
        f = self.peering_cls.find_method('buildProtocol')
        res = self.ip.call_func(FuncV(f, Obj(w.peering)), [addr], {}, st)
        out = []
        for k, v, s in res:
            if k != 'val' or not isinstance(v, Obj):
                raise AnalysisError('buildProtocol does not return a protocol instance on every path')
            out.append((v.oid, s))
        return out

    def setup(self, state_name, protocol='live', hold_partition=None, **over):
        """States with the given FSM state.  protocol: 'none' (never connected), 'live'
        (current connection, wired through buildProtocol), 'stale' (a closed earlier one)."""
        st = self.fresh()
        w = self.world
        outs = []
        if protocol == 'none':
            outs = [(None, st)]
        else:
            outs = self.new_protocol(st)
        res = []
        for poid, s in outs:
            fh = s.heap[w.fsm]
            fh.fields['state'] = Const(self.states[state_name])
            # symbolic configuration / negotiated values
            fh.fields['hold_time'] = prims.mk_sym(s, 'fsm.hold_time', 0, 65535)
            fh.fields['keep_alive_time'] = prims.mk_sym(s, 'fsm.keep_alive_time', 0, 65535)
            for fld in ('connect_retry_time', 'idle_hold_time', 'delay_open_time'):
                fh.fields[fld] = prims.mk_sym(s, 'fsm.%s' % fld, 0, INF)
            fh.fields['allow_automatic_start'] = Opaque('fsm.allow_automatic_start', 'bool')
            fh.fields['connect_retry_counter'] = prims.mk_sym(s, 'fsm.connect_retry_counter', 0, INF)
            for short, (oid, fname, cb) in w.timers.items():
                s.heap[oid].fields['status'] = Opaque('status(%s)' % short, 'bool')
                s.heap[oid].fields['$armed'] = Const('unknown')
            if poid is not None:
                ph = s.heap[poid]
                tr = ph.fields.get('transport')
                if isinstance(tr, Obj):
                    s.heap[tr.oid].fields['connected'] = Const(True) if protocol == 'live' \
                        else Const(False)
                if protocol == 'stale':
                    ph.fields['disconnected'] = Const(True)
                ph.fields['_receive_buffer'] = Opaque('buf', 'bytes')
                ph.fields['fourbytesas'] = Opaque('proto.fourbytesas', 'bool')
                s.heap[w.peering].fields['bgp_id'] = Opaque('peering.bgp_id')
            # any history: every scalar field that some method other than __init__ writes is unknown
            for oname, oid in (('fsm', w.fsm), ('peering', w.peering), ('proto', poid)):
                if oid is None:
                    continue
                hh = s.heap[oid]
                for fld in self._mutable_fields():
                    if fld in self.MODELLED or fld not in hh.fields:
                        continue
                    cur = hh.fields[fld]
                    if isinstance(cur, Const) and not isinstance(cur.value, (tuple, dict, list)):
                        kind = 'bool' if isinstance(cur.value, bool) else None
                        hh.fields[fld] = Opaque('%s.%s' % (oname, fld), kind)
            for k, v in over.items():
                obj, _, fld = k.partition('__')
                oid = {'fsm': w.fsm, 'peering': w.peering, 'proto': poid}[obj]
                s.heap[oid].fields[fld] = v
            s.actions = []
            s.writes = []
            s.path = []
            s.flags = set()
            s.counter += 1
            s.base = s.counter
            if hold_partition is None:
                hold_partition = state_name in ('OpenConfirm', 'Established')
            parts = self._hold_partitions(s) if hold_partition else None
            if parts:
                # session states: the hold time is what a negotiation left, 0 or >= 3 (1 and 2 are refused: C01
                # open-acceptance rule), and the keepalive period is the function of it that the negotiation
                # computes - a test of either of the two then decides the other one as well
                for k_, (hiv, kiv) in enumerate(parts):
                    sp = s.fork() if k_ < len(parts) - 1 else s
                    sp.cons['fsm.hold_time'] = (hiv[0], hiv[1], frozenset())
                    sp.cons['fsm.keep_alive_time'] = (kiv[0], kiv[1], frozenset())
                    sp.flags = set(sp.flags) | {'regime:hold=%s' % ('0' if hiv[1] == 0 else '>0')}
                    res.append((poid, sp))
            else:
                res.append((poid, s))
            if protocol == 'stale':
                # the earlier connection's close may already have been reported (estab_protocol cleared by
                # connection_closed) while the FSM still points at the old protocol object
                s2 = s.fork()
                s2.heap[w.peering].fields['estab_protocol'] = Const(None)
                s2.flags = set(s2.flags) | {'regime:estab-cleared'}
                res.append((poid, s2))
        return res

    def _hold_partitions(self, s):
        """[(hold interval, keepalive-period interval)] for H = 0 and H >= 3, the period evaluated (interval
        arithmetic) from the one assignment `keep_alive_time = f(hold_time)` of the package; None when that
        assignment is not found or f uses something else (the two values then stay independent)."""
        if getattr(self, '_kat_expr', 0) == 0:
            import ast as _ast
            self._kat_expr = None
            cands = []
            for f in self.prog.all_functions():
                for n in _ast.walk(f.node):
                    if isinstance(n, _ast.Assign) and any(isinstance(t, _ast.Attribute) and t.attr == 'keep_alive_time'
                                                          for t in n.targets) and f.name != '__init__' and \
                            any(isinstance(x, _ast.Attribute) and x.attr == 'hold_time' for x in _ast.walk(n.value)):
                        cands.append((f, n.value))
            if len(cands) == 1:
                self._kat_expr = cands[0]
        if self._kat_expr is None:
            return None
        f, expr = self._kat_expr
        out = []
        for hiv in ((0, 0), (3, 65535)):
            kiv = _interval_of(self.prog, f, expr, hiv)
            if kiv is None:
                return None
            out.append((hiv, kiv))
        return out

    MODELLED = {'state', 'protocol', 'bgp_peering', 'fsm', 'estab_protocol', 'handler', 'factory',
                'transport', 'disconnected', '_receive_buffer', 'hold_time', 'keep_alive_time',
                'allow_automatic_start', 'connect_retry_counter', 'fourbytesas', 'bgp_id',
                'connect_retry_time', 'idle_hold_time', 'delay_open_time', 'delay_open'}

    def _mutable_fields(self):
        if getattr(self, '_mf', None) is None:
            import ast as _ast
            mf = set()
            for f in self.prog.all_functions():
                if f.name == '__init__':
                    continue
                for n in _ast.walk(f.node):
                    tgts = []
                    if isinstance(n, _ast.Assign):
                        tgts = n.targets
                    elif isinstance(n, (_ast.AugAssign, _ast.AnnAssign)):
                        tgts = [n.target]
                    for t in tgts:
                        for tt in (t.elts if isinstance(t, (_ast.Tuple, _ast.List)) else [t]):
                            if isinstance(tt, _ast.Attribute):
                                mf.add(tt.attr)
            self._mf = mf
        return self._mf

    # ------------------------------------------------------------------ running
    def run_method(self, st, oid, meth, args=(), kwargs=None):
        h = st.heap[oid]
        f = h.cls.find_method(meth)
        if f is None:
            raise AnalysisError('entry point %s.%s vanished' % (h.cls.qualname, meth))
        return self.ip.call(FuncV(f, Obj(oid)), list(args), dict(kwargs or {}), st)

    def summarize(self, kind, val, st, poid=None):
        return Row(self, kind, val, st, poid)


class Row(object):
    """One path of one entry point: guards, actions, final state."""

    def __init__(self, model, kind, val, st, poid):
        self.model = model
        self.kind = kind
        self.val = val
        self.st = st
        self.poid = poid
        w = model.world
        fs = st.heap[w.fsm].fields.get('state')
        self.final = model.state_by_val.get(fs.value) if isinstance(fs, Const) else None
        self.final_raw = fs
        self.guards = [(t, b) for (t, b, l, f) in st.path]
        self.flags = set(st.flags)
        self.actions = st.actions
        self.events = self._events()

    def _events(self):
        """Ordered semantic actions."""
        out = []
        cur_send = None
        for a in self.actions:
            if a.kind == 'enter':
                short = a.meth.rsplit('.', 1)[-1]
                if short.startswith('__'):
                    continue
                if a.meth.startswith(BGP_Q + '.send_'):
                    out.append(('enter_send', short, a.args, a.kwargs, a.line))
                elif a.meth.startswith(FSM_Q + '.'):
                    out.append(('fsm', short, a.args, a.kwargs, a.line))
                elif a.meth.startswith(PEERING_Q + '.'):
                    out.append(('peering', short, a.args, a.kwargs, a.line))
                elif a.meth.startswith(BGP_Q + '.'):
                    out.append(('bgp', short, a.args, a.kwargs, a.line))
            elif a.kind == 'timer':
                out.append(('timer', a.target, a.meth, a.args, a.line))
            elif a.kind == 'call':
                if a.target.startswith('transport') and a.meth == 'write':
                    fn = (a.func or '').rsplit('.', 1)[-1]
                    out.append(('write', fn, a.args, a.line))
                elif a.target.startswith('transport') and a.meth == 'loseConnection':
                    out.append(('close', a.target, a.line))
                elif a.target == 'reactor' and a.meth == 'connectTCP':
                    out.append(('connectTCP', a.kwargs, a.line))
                elif a.target.startswith('handler'):
                    out.append(('handler', a.meth, a.args, a.line))
                elif a.target == 'sys' and a.meth == 'exit':
                    out.append(('exit', a.line))
        return out

    # semantic queries ------------------------------------------------------
    def sends(self):
        """Messages written to the transport, in order: ('open',) ('keepalive',)
        ('notification', code, sub) ('update',) ('route_refresh',) ('raw', fn)."""
        out = []
        pending = []     # stack of enter_send
        for e in self.events:
            if e[0] == 'enter_send':
                pending.append(e)
            elif e[0] == 'write':
                fn = e[1]
                if fn == 'send_notification':
                    ent = [p for p in pending if p[1] == 'send_notification']
                    code = sub = None
                    if ent:
                        args, kwargs = ent[-1][2], ent[-1][3]
                        vals = list(args)
                        code = kwargs.get('error', vals[0] if vals else None)
                        sub = kwargs.get('sub_error', vals[1] if len(vals) > 1 else None)
                    out.append(('notification', cval(code), cval(sub)))
                elif fn == 'send_open':
                    out.append(('open',))
                elif fn == 'send_keepalive':
                    out.append(('keepalive',))
                elif fn in ('send_update', 'write_tcp_thread', 'send_bin_update'):
                    out.append(('update',))
                elif fn == 'send_route_refresh':
                    out.append(('route_refresh',))
                else:
                    out.append(('raw', fn))
        return out

    def timer_ops(self):
        return [(e[1], e[2], [cdesc(a) for a in e[3]]) for e in self.events if e[0] == 'timer']

    def closes(self):
        return [e for e in self.events if e[0] == 'close']

    def connects(self):
        return [e for e in self.events if e[0] == 'connectTCP']

    def fsm_calls(self):
        return [e[1] for e in self.events if e[0] == 'fsm']

    def handler_calls(self):
        return [e[1] for e in self.events if e[0] == 'handler']

    def timer_final(self, short):
        oid = self.model.world.timers[short][0]
        v = self.st.heap[oid].fields.get('$armed')
        return v.value if isinstance(v, Const) else 'unknown'

    def field(self, obj, name):
        w = self.model.world
        oid = {'fsm': w.fsm, 'peering': w.peering, 'proto': self.poid}[obj]
        if oid is None:
            return None
        return self.st.heap[oid].fields.get(name)

    def guard_text(self):
        return ' & '.join(('' if b else 'not ') + '(' + t + ')' for t, b in self.guards) or 'true'

    def ordered(self):
        """Compact ordered action list for reports."""
        out = []
        sends = iter(self.sends())
        for e in self.events:
            if e[0] == 'write':
                s = next(sends, None)
                out.append('send:' + ':'.join(str(x) for x in s))
            elif e[0] == 'timer':
                out.append('%s.%s(%s)' % (e[1], e[2], ','.join(cdesc(a) for a in e[3])))
            elif e[0] == 'close':
                out.append('close')
            elif e[0] == 'connectTCP':
                out.append('connectTCP')
            elif e[0] == 'handler':
                out.append('handler.' + e[1])
        return out

    def describe(self):
        return {'guards': self.guard_text(), 'actions': self.ordered(), 'final': self.final,
                'outcome': self.kind, 'flags': sorted(self.flags)}


def cval(v):
    if isinstance(v, Const):
        return v.value
    if v is None:
        return None
    return v.desc()


def cdesc(v):
    return v.desc() if hasattr(v, 'desc') else repr(v)


def _interval_of(prog, f, e, hiv):
    """Interval of an arithmetic expression over `<x>.hold_time` in hiv; None when it uses anything else."""
    import ast as _ast
    import math
    if isinstance(e, _ast.Attribute) and e.attr == 'hold_time' and 'CONF' not in _ast.dump(e) and 'cfg' not in _ast.dump(e):
        return hiv
    c = prog.try_fold(e, f.module, f.cls)
    if isinstance(c, (int, float)) and not isinstance(c, bool):
        return (c, c)
    if isinstance(e, _ast.BinOp):
        a, b = _interval_of(prog, f, e.left, hiv), _interval_of(prog, f, e.right, hiv)
        if a is None or b is None:
            return None
        if isinstance(e.op, (_ast.Div, _ast.FloorDiv)):
            if b[0] != b[1] or b[0] <= 0:
                return None
            if isinstance(e.op, _ast.Div):
                return (a[0] / b[0], a[1] / b[0])
            return (a[0] // b[0], a[1] // b[0])
        if isinstance(e.op, _ast.Mult):
            v = [a[0] * b[0], a[0] * b[1], a[1] * b[0], a[1] * b[1]]
            return (min(v), max(v))
        if isinstance(e.op, _ast.Add):
            return (a[0] + b[0], a[1] + b[1])
        if isinstance(e.op, _ast.Sub):
            return (a[0] - b[1], a[1] - b[0])
        return None
    if isinstance(e, _ast.Call) and isinstance(e.func, _ast.Name) and not e.keywords:
        args = [_interval_of(prog, f, a, hiv) for a in e.args]
        if any(a is None for a in args) or not args:
            return None
        if e.func.id == 'max':
            return (max(a[0] for a in args), max(a[1] for a in args))
        if e.func.id == 'min':
            return (min(a[0] for a in args), min(a[1] for a in args))
        if e.func.id in ('int', 'float', 'round') and len(args) == 1:
            return (math.floor(args[0][0]), math.ceil(args[0][1])) if e.func.id != 'float' else args[0]
    return None
