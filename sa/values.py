"""Abstract values and states of the forking abstract interpreter (sa/interp.py)."""
import copy

INF = float('inf')


class V(object):
    def desc(self):
        return repr(self)


class Const(V):
    __slots__ = ('value',)

    def __init__(self, value):
        self.value = value

    def desc(self):
        return repr(self.value)

    def __repr__(self):
        return 'Const(%r)' % (self.value,)


class Sym(V):
    """Symbolic scalar.  Its interval lives in State.cons[name]; `origin` records how it
    was computed (op, args) so rules can inspect e.g. hold_time / 3."""
    __slots__ = ('name', 'origin')

    def __init__(self, name, origin=None):
        self.name = name
        self.origin = origin

    def desc(self):
        return self.name

    def __repr__(self):
        return 'Sym(%s)' % self.name


class Opaque(V):
    """Unknown value, identified by the access path / call text that produced it."""
    __slots__ = ('d', 'kind')

    def __init__(self, d, kind=None):
        self.d = d
        self.kind = kind      # 'bytes' | 'int' | None

    def desc(self):
        return self.d

    def __repr__(self):
        return 'Opaque(%s)' % self.d


class Obj(V):
    __slots__ = ('oid',)

    def __init__(self, oid):
        self.oid = oid

    def desc(self):
        return self.oid

    def __repr__(self):
        return 'Obj(%s)' % self.oid


class FuncV(V):
    __slots__ = ('finfo', 'selfv')

    def __init__(self, finfo, selfv=None):
        self.finfo = finfo
        self.selfv = selfv

    def desc(self):
        if self.selfv is not None:
            return '%s.%s' % (self.selfv.desc(), self.finfo.name)
        return self.finfo.qualname

    def __repr__(self):
        return 'FuncV(%s)' % self.desc()


class ClassV(V):
    __slots__ = ('cinfo',)

    def __init__(self, cinfo):
        self.cinfo = cinfo

    def desc(self):
        return self.cinfo.qualname


class ModV(V):
    __slots__ = ('mod',)

    def __init__(self, mod):
        self.mod = mod        # front.Module or front.External

    def desc(self):
        return getattr(self.mod, 'name', None) or self.mod.dotted


class TupleV(V):
    __slots__ = ('items',)

    def __init__(self, items):
        self.items = list(items)

    def desc(self):
        return '(' + ', '.join(i.desc() for i in self.items) + ')'

    def __repr__(self):
        return 'TupleV(%r)' % (self.items,)


class BytesV(V):
    """Symbolic byte string = concatenation of parts.
    part = ('lit', bytes) | ('pack', fmt, [V...], line) | ('opq', V, line) | ('rep', BytesV, V)."""
    __slots__ = ('parts',)

    def __init__(self, parts):
        self.parts = list(parts)

    def desc(self):
        return 'bytes[' + '+'.join(_pdesc(p) for p in self.parts) + ']'

    def __repr__(self):
        return self.desc()


def _pdesc(p):
    if p[0] == 'lit':
        return repr(p[1])
    if p[0] == 'pack':
        return 'pack(%r,%s)' % (p[1], ','.join(a.desc() for a in p[2]))
    if p[0] == 'opq':
        return '<%s>' % p[1].desc()
    if p[0] == 'fix':
        return '<%d octets of %s>' % (p[1], p[2])
    return '<%s>' % (p[0],)


class HObj(object):
    """Heap object: kind inst (fields), list (items), dict (items: python-key -> V)."""

    def __init__(self, kind, cls=None):
        self.kind = kind
        self.cls = cls
        self.fields = {}
        self.items = [] if kind == 'list' else {}
        self.open = False      # list/dict may contain more than `items`
        self.born = 0

    def clone(self):
        h = HObj(self.kind, self.cls)
        h.fields = dict(self.fields)
        h.items = list(self.items) if self.kind == 'list' else dict(self.items)
        h.open = self.open
        h.born = self.born
        return h


class Action(object):
    __slots__ = ('kind', 'target', 'meth', 'args', 'kwargs', 'line', 'func', 'seq')

    def __init__(self, kind, target, meth, args=(), kwargs=None, line=None, func=None):
        self.kind = kind        # 'call' | 'write' | 'timer' | 'raise-uncaught'
        self.target = target    # desc string of the receiver
        self.meth = meth
        self.args = list(args)
        self.kwargs = dict(kwargs or {})
        self.line = line
        self.func = func

    def short(self):
        a = ', '.join(x.desc() if isinstance(x, V) else repr(x) for x in self.args)
        if self.kwargs:
            a += (', ' if a else '') + ', '.join('%s=%s' % (k, v.desc()) for k, v in sorted(self.kwargs.items()))
        return '%s.%s(%s)' % (self.target, self.meth, a)

    def __repr__(self):
        return self.short()


class State(object):
    def __init__(self):
        self.heap = {}
        self.cons = {}        # sym name -> (lo, hi, frozenset(neq))
        self.atoms = {}       # opaque boolean text -> bool
        self.actions = []
        self.writes = []      # (objdesc, field, V, line, func)
        self.path = []        # (text, bool, line, func)
        self.frames = []      # list of dict name -> V ; '$func' -> FuncInfo
        self.flags = set()
        self.counter = 0
        self.base = -1
        self.syminfo = {}
        self.lin = {}         # sym name -> (other sym name, c): name = other + c

    def fork(self):
        s = State()
        s.heap = {k: v.clone() for k, v in self.heap.items()}
        s.cons = dict(self.cons)
        s.atoms = dict(self.atoms)
        s.actions = list(self.actions)
        s.writes = list(self.writes)
        s.path = list(self.path)
        s.frames = [dict(f) for f in self.frames]
        s.flags = set(self.flags)
        s.counter = self.counter
        s.base = self.base
        s.syminfo = dict(self.syminfo)
        s.lin = dict(self.lin)
        return s

    def fresh(self, prefix):
        self.counter += 1
        return '%s#%d' % (prefix, self.counter)

    def new_obj(self, kind, cls=None, hint=None):
        oid = hint if hint and hint not in self.heap else self.fresh(hint or kind)
        self.heap[oid] = HObj(kind, cls)
        self.heap[oid].born = self.counter
        return Obj(oid)

    @property
    def env(self):
        return self.frames[-1]

    def interval(self, name):
        return self.cons.get(name, (-INF, INF, frozenset()))

    def cur_func(self):
        for f in reversed(self.frames):
            if '$func' in f:
                return f['$func']
        return None
