"""Verdict collection, known findings, evidence and exit codes."""
import json
import os
import sys
import time

VERIF = os.path.dirname(os.path.dirname(os.path.abspath(__file__)))
KNOWN_FILE = os.path.join(VERIF, 'known_findings.json')
EVIDENCE_DIR = os.environ.get('YABGP_EVIDENCE_DIR') or os.path.join(VERIF, 'evidence')


class Instance(object):
    """One rule instance (call site, loop, cell, class ...) and its verdict."""

    def __init__(self, rule, name, verdict, file=None, line=None, func=None, found=None,
                 expected=None, path=None, key=None, nontrivial=True, note=None):
        self.rule = rule
        self.name = name
        self.verdict = verdict          # ok | violation | undecided | note
        self.file = file
        self.line = line
        self.func = func
        self.found = found
        self.expected = expected
        self.path = path
        self.key = key or name          # identity for known findings (no line numbers)
        self.nontrivial = nontrivial
        self.note = note

    def to_json(self):
        d = {'rule': self.rule, 'instance': self.name, 'verdict': self.verdict}
        for k in ('file', 'line', 'func', 'found', 'expected', 'path', 'key', 'note'):
            v = getattr(self, k)
            if v is not None:
                d[k] = v
        return d


class Report(object):
    def __init__(self, prop, tier):
        self.prop = prop
        self.tier = tier
        self.instances = []
        self.rules = {}            # rule id -> description
        self.notes = []
        self.coverage_drops = []
        self.collapsed = []
        self.analysed = {}
        self.assumptions = []
        self.trusted = []
        self.t0 = time.time()
        self.selftest = None

    def rule(self, rid, text):
        self.rules[rid] = text

    def add(self, *a, **kw):
        inst = Instance(*a, **kw)
        self.instances.append(inst)
        return inst

    def ok(self, rule, name, **kw):
        return self.add(rule, name, 'ok', **kw)

    def bad(self, rule, name, **kw):
        return self.add(rule, name, 'violation', **kw)

    def undecided(self, rule, name, **kw):
        return self.add(rule, name, 'undecided', **kw)

    def note(self, text):
        self.notes.append(text)

    def floor(self, rule, what, count, reference):
        """Hand-confirmed reference count.  A small drop is recorded (a refactoring may merge two functions);
        a collapse - nothing found, or fewer than half of what was confirmed by hand - means the rule no longer
        sees its subjects and would pass vacuously: that is an analysis error (exit 2), never a pass."""
        self.analysed['%s:%s' % (rule, what)] = count
        if count < reference:
            self.coverage_drops.append('%s %s: %d < reference %d' % (rule, what, count, reference))
        if count == 0 or count * 2 < reference:
            self.collapsed.append('%s %s: %d of %d expected subjects found (vacuous pass forbidden)' % (
                rule, what, count, reference))

    # ------------------------------------------------------------------
    def finish(self):
        known = load_known()
        open_keys = {}
        for e in known:
            if e.get('property') == self.prop and e.get('status') == 'open':
                open_keys[(e['rule'], e['key'])] = e
        viol, knownhits, undec = [], [], []
        dedupe = set()
        for i in self.instances:
            if i.verdict == 'violation':
                if (i.rule, i.key) in dedupe:
                    continue
                dedupe.add((i.rule, i.key))
                e = open_keys.get((i.rule, i.key))
                if e is not None:
                    knownhits.append((i, e))
                else:
                    viol.append(i)
            elif i.verdict == 'undecided':
                undec.append(i)
        per_rule = {}
        for i in self.instances:
            d = per_rule.setdefault(i.rule, {'ok': 0, 'violation': 0, 'undecided': 0, 'note': 0})
            d[i.verdict] = d.get(i.verdict, 0) + 1
        empty_rules = [r for r in self.rules if r not in per_rule]
        lines = []
        print('== %s tier=%s : %d rules, %d instances' % (
            self.prop, self.tier, len(self.rules), len(self.instances)))
        for r in sorted(self.rules):
            d = per_rule.get(r, {})
            print('  %-7s ok=%-3d viol=%-2d undecided=%-2d  %s' % (
                r, d.get('ok', 0), d.get('violation', 0), d.get('undecided', 0), self.rules[r][:100]))
        for k, v in sorted(self.analysed.items()):
            print('  analysed %s = %s' % (k, v))
        for c in self.coverage_drops:
            print('COVERAGE-DROP %s' % c)
        for n in self.notes:
            print('NOTE %s' % n)
        for i, e in knownhits:
            print('KNOWN-FINDING: property=%s %s %s -- %s' % (self.prop, i.rule, i.key, e.get('what', '')))
        rc = 0
        replay_dir = os.path.join(EVIDENCE_DIR, 'replay')
        if viol:
            rc = 1
            os.makedirs(replay_dir, exist_ok=True)
            for n, i in enumerate(viol, 1):
                rp = os.path.join(replay_dir, '%s-%d.json' % (self.prop, n))
                with open(rp, 'w') as f:
                    json.dump(dict(i.to_json(), property=self.prop), f, indent=1, default=str)
                print('  %s %s:%s %s [%s] found: %s ; expected: %s' % (
                    i.rule, i.file, i.line, i.func or '', i.name, i.found, i.expected))
                print('VIOLATION property=%s replay=%s' % (self.prop, (os.path.relpath(rp, VERIF) if rp.startswith(VERIF) else rp)))
        if undec or empty_rules or self.collapsed:
            for c in self.collapsed:
                print('ANALYSIS-ERROR coverage collapsed: %s' % c)
            for i in undec:
                print('ANALYSIS-ERROR %s %s:%s [%s] %s' % (i.rule, i.file, i.line, i.name, i.found))
            for r in empty_rules:
                print('ANALYSIS-ERROR rule %s has no instance (vacuous pass forbidden)' % r)
            if rc == 0:
                rc = 2
        self._write_evidence(viol, knownhits, undec, per_rule)
        if rc == 0:
            print('PASS %s (%d instances ok, %d known findings)' % (
                self.prop, sum(1 for i in self.instances if i.verdict == 'ok'), len(knownhits)))
        return rc

    def _write_evidence(self, viol, knownhits, undec, per_rule):
        os.makedirs(EVIDENCE_DIR, exist_ok=True)
        oks = [i for i in self.instances if i.verdict == 'ok']
        nontrivial = set((i.rule, i.key) for i in self.instances
                         if i.nontrivial and i.verdict in ('ok', 'violation'))
        samples = []
        seen_rules = set()
        for i in self.instances:
            if i.rule not in seen_rules and i.verdict in ('ok', 'violation'):
                seen_rules.add(i.rule)
                samples.append(i.to_json())
        for i, e in knownhits[:5]:
            samples.append(dict(i.to_json(), known_finding=True))
        cov = {
            'explanation': (
                'Static rule discharge over the source of /repo (yabgp is not imported or run). '
                'Each rule is a structural necessary condition of the property; an instance is one '
                'construct (call site, loop, FSM cell, class, table entry) the rule was evaluated on. '
                'Rules: ' + '; '.join('%s = %s' % (r, t) for r, t in sorted(self.rules.items()))),
            'obligations': len(self.instances),
            'discharged': len(oks),
            'known_findings': len(knownhits),
            'evaluations': len(self.instances),
            'distinct_nontrivial': len(nontrivial),
            'rule': ('one evaluation = one rule instance on one construct of the current tree; '
                     'non-trivial = the verdict needed a non-vacuous fact (e.g. a literal-0 length '
                     'field or an empty cell does not count); distinct by (rule, construct key)'),
            'samples': samples[:40],
            'per_rule': per_rule,
            'analysed': self.analysed,
            'coverage_drops': self.coverage_drops,
            'notes': self.notes[:60],
            'checker_cmd': 'python3 sa/check.py %s --tier %s' % (self.prop, self.tier),
            'trusted_base': self.trusted or ['CPython ast', 'struct.calcsize',
                                             'transcribed RFC/IANA oracle tables in sa/'],
            'exhaustive': False,
        }
        if self.selftest is not None:
            cov['selftest'] = self.selftest
        ev = {
            'property_id': self.prop,
            'tier': self.tier,
            'seed': int(os.environ.get('VERIF_SEED', '0') or 0),
            'level': 'other',
            'coverage': cov,
            'assumptions': self.assumptions,
            'wall_s': round(time.time() - self.t0, 3),
            'violations': len(viol),
        }
        with open(os.path.join(EVIDENCE_DIR, '%s.json' % self.prop), 'w') as f:
            json.dump(ev, f, indent=1, default=str)


def load_known():
    if not os.path.exists(KNOWN_FILE):
        return []
    with open(KNOWN_FILE) as f:
        return json.load(f).get('findings', [])
