#!/usr/bin/env python3
"""Entry point: python3 sa/check.py C<nn> [--tier quick|thorough]

exit 0 = every rule instance ok or a listed known finding
exit 1 = at least one unlisted violation (VIOLATION property=<id> replay=<path>)
exit 2 = ANALYSIS-ERROR (anchor vanished, idiom outside the vocabulary, checker crash)
"""
import importlib
import os
import sys
import traceback

HERE = os.path.dirname(os.path.abspath(__file__))
sys.path.insert(0, os.path.dirname(HERE))

from sa.front import Program, AnalysisError   # noqa: E402
from sa.report import Report                  # noqa: E402


def run_selftest(prop):
    """Thorough tier: sensitivity self-test of this property's rules (selftest/run.py)."""
    import subprocess
    st = os.path.join(os.path.dirname(HERE), 'selftest', 'run.py')
    pr = subprocess.run([sys.executable, st, prop], stdout=subprocess.PIPE, stderr=subprocess.STDOUT,
                        universal_newlines=True)
    lines = pr.stdout.splitlines()
    for l in lines:
        if not l.startswith('SELFTEST OK'):
            print(l)
    summ = {'entries': sum(1 for l in lines if l.startswith('SELFTEST ') and ' entries' not in l),
            'ok': sum(1 for l in lines if l.startswith('SELFTEST OK')),
            'failed': [l for l in lines if l.startswith('SELFTEST ') and not l.startswith('SELFTEST OK')
                       and ' entries' not in l][:20]}
    print('SELFTEST summary: %(ok)d of %(entries)d entries as expected' % summ)
    rc = pr.returncode
    # the kept seeded changes of this property (written by independent sub-agents) must be reported too
    sd = os.path.join(os.path.dirname(HERE), 'seeded')
    ids = sorted(x for x in os.listdir(sd) if x.startswith(prop + '-') and os.path.isfile(os.path.join(sd, x, 'patch.diff')))
    if ids:
        pr2 = subprocess.run([sys.executable, os.path.join(sd, 'eval.py'), '--no-results'] + ids, stdout=subprocess.PIPE,
                             stderr=subprocess.STDOUT, universal_newlines=True)
        caught = [l.split()[0] for l in pr2.stdout.splitlines() if "fired=['%s']" % prop in l]
        summ['seeded'] = {'kept': ids, 'reported': caught}
        print('SEEDED summary: %d of %d kept changes reported' % (len(caught), len(ids)))
        if len(caught) != len(ids):
            print(pr2.stdout)
            rc = rc or 2
    return rc, summ


def main(argv):
    if len(argv) < 2:
        print(__doc__)
        return 2
    prop = argv[1]
    tier = os.environ.get('VERIF_TIER', 'quick')
    if '--tier' in argv:
        tier = argv[argv.index('--tier') + 1]
    if tier not in ('quick', 'thorough'):
        tier = 'quick'
    rep = Report(prop, tier)
    try:
        mod = importlib.import_module('sa.rules.%s' % prop.lower())
        prog = Program()
        rep.analysed['modules'] = len(prog.modules)
        rep.analysed['tree_digest'] = prog.digest()
        mod.check(prog, rep, tier)
        if tier == 'thorough':
            rc_st, summary = run_selftest(prop)
            rep.selftest = summary
            if rc_st != 0:
                rep.finish()
                print('ANALYSIS-ERROR %s: checker self-test failed (a mutant was missed or a refactor '
                      'twin raised an alarm); see output above' % prop)
                return 2
        return rep.finish()
    except AnalysisError as e:
        print('ANALYSIS-ERROR %s: %s' % (prop, e))
        return 2
    except Exception:
        print('ANALYSIS-ERROR %s: checker crashed' % prop)
        traceback.print_exc()
        return 2


if __name__ == '__main__':
    sys.exit(main(sys.argv))
