#!/usr/bin/env python3
"""Entry point: python3 sa/check.py C<nn> [--tier quick|thorough]

exit 0 = every rule instance ok or a listed known finding
exit 1 = at least one unlisted violation (VIOLATION property=<id> replay=<path>)
exit 2 = ANALYSIS-ERROR (anchor vanished, idiom outside the vocabulary, checker crash)
"""
import importlib
import os
import sys
import traceback

HERE = os.path.dirname(os.path.abspath(__file__))
sys.path.insert(0, os.path.dirname(HERE))

from sa.front import Program, AnalysisError   # noqa: E402
from sa.report import Report                  # noqa: E402


def main(argv):
    if len(argv) < 2:
        print(__doc__)
        return 2
    prop = argv[1]
    tier = os.environ.get('VERIF_TIER', 'quick')
    if '--tier' in argv:
        tier = argv[argv.index('--tier') + 1]
    if tier not in ('quick', 'thorough'):
        tier = 'quick'
    rep = Report(prop, tier)
    try:
        mod = importlib.import_module('sa.rules.%s' % prop.lower())
        prog = Program()
        rep.analysed['modules'] = len(prog.modules)
        rep.analysed['tree_digest'] = prog.digest()
        mod.check(prog, rep, tier)
        return rep.finish()
    except AnalysisError as e:
        print('ANALYSIS-ERROR %s: %s' % (prop, e))
        return 2
    except Exception:
        print('ANALYSIS-ERROR %s: checker crashed' % prop)
        traceback.print_exc()
        return 2


if __name__ == '__main__':
    sys.exit(main(sys.argv))
