"""ByteLen: symbolic length of byte strings as linear forms  c + sum k_i * atom_i  and the
generic length-field agreement rule over symbolic concatenations (BytesV).

A linear form is (const, {atom: coeff}).  Atoms are 'len(<desc>)' of opaque byte values
(normalised so that len(str(x).encode()) == len(x)), or opaque scalar names.
"""
import re
import struct as _struct

from .values import Const, Sym, Opaque, Obj, BytesV, TupleV, INF
from .prims import SliceV, parse_fmt, fmt_size

UNKNOWN = None


def lf(c=0, atoms=None):
    return (c, dict(atoms or {}))


def lf_add(a, b, k=1):
    if a is None or b is None:
        return None
    c = a[0] + k * b[0]
    at = dict(a[1])
    for n, v in b[1].items():
        at[n] = at.get(n, 0) + k * v
        if at[n] == 0:
            del at[n]
    return (c, at)


def lf_scale(a, k):
    if a is None:
        return None
    return (a[0] * k, {n: v * k for n, v in a[1].items() if v * k != 0})


def lf_eq(a, b):
    return a is not None and b is not None and a[0] == b[0] and a[1] == b[1]


def is_ip_atom(n):
    return n.startswith('len(') and n.endswith('.packed)')


def lf_eq_ip(a, b):
    """Equality where the length of an IP address (`<x>.packed`) may be 4 or 16: the forms must
    agree for some assignment of {4, 16} to each such atom (the address family is an input)."""
    if a is None or b is None:
        return False
    if lf_eq(a, b):
        return True
    d = lf_add(a, b, -1)
    atoms = list(d[1])
    if not atoms or not all(is_ip_atom(n) for n in atoms) or len(atoms) > 4:
        return False
    import itertools
    for combo in itertools.product((4, 16), repeat=len(atoms)):
        if d[0] + sum(d[1][n] * v for n, v in zip(atoms, combo)) == 0:
            return True
    return False


def lf_str(a):
    if a is None:
        return '?'
    parts = [str(a[0])] if a[0] or not a[1] else []
    for n, v in sorted(a[1].items()):
        parts.append(('%s' % n) if v == 1 else ('%d*%s' % (v, n)))
    return ' + '.join(parts)


# only single-byte encodings preserve the length of a str
_ENC = re.compile(r"""\.encode\(['"](ascii|latin-1|latin1|iso-8859-1)['"]\)(\(\))?$""")


def norm_len_desc(d):
    """Normalise the description of a value whose len() is taken."""
    prev = None
    while prev != d:
        prev = d
        d = _ENC.sub('', d)
        m = re.match(r'^str\((.*)\)$', d)
        if m and m.group(1).count('(') == m.group(1).count(')'):
            d = m.group(1)
        m = re.match(r'^bytes\((.*)\)$', d)
        if m and m.group(1).count('(') == m.group(1).count(')') and ',' not in m.group(1):
            d = m.group(1)
    return d


def bytelen(v, st):
    """Linear form of len(v) for a bytes-like abstract value (None = not expressible)."""
    if isinstance(v, Const):
        if isinstance(v.value, (bytes, str)):
            return lf(len(v.value))
        return None
    if isinstance(v, BytesV):
        tot = lf(0)
        for p in v.parts:
            tot = lf_add(tot, part_len(p, st))
            if tot is None:
                return None
        return tot
    if isinstance(v, SliceV):
        # constant window of a fixed-size value
        b = bytelen(v.base, st)
        lo = v.lo.value if isinstance(v.lo, Const) else ('?' if v.lo is not None else None)
        hi = v.hi.value if isinstance(v.hi, Const) else ('?' if v.hi is not None else None)
        if b is not None and not b[1] and lo != '?' and hi != '?':
            return lf(len(range(b[0])[lo:hi]))
        return lf(0, {'len(%s)' % norm_len_desc(v.desc()): 1})
    if isinstance(v, (Opaque, Sym)):
        return lf(0, {'len(%s)' % norm_len_desc(v.desc()): 1})
    if isinstance(v, Obj):
        return lf(0, {'len(%s)' % v.oid: 1})
    return None


def part_len(p, st):
    if p[0] == 'lit':
        return lf(len(p[1]))
    if p[0] == 'pack':
        n = fmt_size(p[1])
        return lf(n) if n is not None else None
    if p[0] == 'fix':
        return lf(p[1])
    if p[0] == 'opq':
        return bytelen(p[1], st)
    if p[0] == 'rep':
        inner = bytelen(p[1], st)
        n = p[2]
        if inner is not None and isinstance(n, Const) and isinstance(n.value, int):
            return lf_scale(inner, n.value)
        if inner is not None and not inner[1]:
            k = lin(n, st)
            return lf_scale(k, inner[0]) if k is not None else None
        return None
    if p[0] == 'packdyn':
        return None
    return None


def lin(v, st, depth=0):
    """Linear form of an integer abstract value (None = not linear / unknown)."""
    if depth > 30:
        return None
    if isinstance(v, Const):
        if isinstance(v.value, bool):
            return lf(int(v.value))
        if isinstance(v.value, int):
            return lf(v.value)
        if isinstance(v.value, float) and v.value == int(v.value):
            return lf(int(v.value))
        return None
    if isinstance(v, Sym):
        lo_, hi_, _n = st.interval(v.name)
        if lo_ == hi_ and lo_ not in (INF, -INF) and lo_ == int(lo_):
            return lf(int(lo_))
        o = v.origin
        if o is None:
            return lf(0, {v.name: 1})
        op, args = o
        if op == 'len':
            return bytelen(args[0], st)
        if op == '+':
            return lf_add(lin(args[0], st, depth + 1), lin(args[1], st, depth + 1))
        if op == '-':
            return lf_add(lin(args[0], st, depth + 1), lin(args[1], st, depth + 1), -1)
        if op == '*':
            a, b = lin(args[0], st, depth + 1), lin(args[1], st, depth + 1)
            if a is not None and b is not None:
                if not a[1]:
                    return lf_scale(b, a[0])
                if not b[1]:
                    return lf_scale(a, b[0])
            return lf(0, {v.name: 1})
        if op == 'int' and len(args) == 1:
            return lin(args[0], st, depth + 1)
        return lf(0, {v.name: 1})
    if isinstance(v, Opaque):
        return lf(0, {v.desc(): 1})
    return None


def flatten(v):
    """BytesV -> flat list of parts (nested BytesV inside 'opq' expanded)."""
    out = []
    if isinstance(v, Const) and isinstance(v.value, bytes):
        return [('lit', v.value)] if v.value else []
    if not isinstance(v, BytesV):
        return [('opq', v, None)]
    for p in v.parts:
        if p[0] == 'opq' and isinstance(p[1], (BytesV,)):
            out.extend(flatten(p[1]))
        elif p[0] == 'opq' and isinstance(p[1], Const) and isinstance(p[1].value, bytes):
            if p[1].value:
                out.append(('lit', p[1].value))
        elif p[0] == 'lit' and not p[1]:
            continue
        else:
            out.append(p)
    return out


def fields(parts):
    """Split pack parts into single fields: list of ('field', code, V, line) | other parts."""
    out = []
    for p in parts:
        if p[0] == 'pack':
            fl = parse_fmt(p[1])
            if fl is None or len([c for c in fl]) != len(p[2]):
                out.append(p)
                continue
            for (code, n), a in zip(fl, p[2]):
                out.append(('field', code if n == 1 else '%d%s' % (n, code), a, p[3],
                            p[4] if len(p) > 4 else None))
        else:
            out.append(p)
    return out


def field_size(code):
    try:
        return _struct.calcsize('!' + code)
    except Exception:
        return None


def item_len(p, st):
    if p[0] == 'field':
        n = field_size(p[1])
        return lf(n) if n is not None else None
    return part_len(p, st)


def involves_len(l):
    return l is not None and any(a.startswith('len(') for a in l[1])


def has_len_origin(v, depth=0):
    """The value was computed from a len() call (even if it folds to a constant)."""
    if depth > 20 or not isinstance(v, Sym) or v.origin is None:
        return False
    op, args = v.origin
    if op == 'len':
        return True
    return any(has_len_origin(a, depth + 1) for a in args if isinstance(a, Sym))


def check_len_fields(v, st):
    """Generic agreement rule.  For every field whose value is a linear form over len() atoms:
    it must equal the total length of a run of items that starts right after it (or, for the
    message header idiom len(msg)+19, the length of the whole string); bit lengths (x8) are
    accepted for NLRI.  -> list of (status, line, text) with status ok|bad|skip."""
    items = fields(flatten(v))
    res = []
    lens = [item_len(p, st) for p in items]
    total = lf(0)
    for l in lens:
        total = lf_add(total, l) if total is not None else None
    for i, p in enumerate(items):
        if p[0] != 'field':
            continue
        want = lin(p[2], st)
        if want is None or not (involves_len(want) or has_len_origin(p[2])):
            continue
        ok = False
        why = ''
        # (a) whole string (headers)
        if lf_eq_ip(want, total):
            ok = True
            why = 'whole string'
        # (b) a run of the following items
        run = lf(0)
        j = i + 1
        # skip sibling fixed fields of the same pack that precede the covered data
        cands = []
        while j <= len(items) and run is not None:
            cands.append((j, run))
            if j == len(items):
                break
            run = lf_add(run, lens[j])
            j += 1
        if not ok:
            for j, r in cands:
                if lf_eq_ip(want, r):
                    ok = True
                    why = 'next %d item(s)' % (j - i - 1)
                    break
                if lf_eq_ip(want, lf_scale(r, 8)):
                    ok = True
                    why = 'next %d item(s) in bits' % (j - i - 1)
                    break
                # bit length of <fixed part> + <prefix length term>: the prefix bytes follow the run
                d = lf_add(want, lf_scale(r, 8), -1)
                if d is not None and d[0] == 0 and d[1] and j < len(items) and \
                        all(not n.startswith('len(') and c == 1 for n, c in d[1].items()):
                    ok = True
                    why = 'next %d item(s) in bits + prefix length %s' % (j - i - 1, lf_str(d))
                    break
        if not ok:
            # (c) run that starts later (length field followed by fixed fields it does not cover is
            # not accepted: that is exactly the off-by-n bug class) - but allow a run starting after
            # sibling fields when the field is followed by reserved/fixed fields *covered* as well
            pass
        res.append(('ok' if ok else 'bad', p[3],
                    'length field %s = %s %s' % (p[1], lf_str(want),
                                                 ('covers ' + why) if ok else
                                                 'matches no run of the data that follows (following items: %s)' %
                                                 ', '.join(lf_str(x) for x in lens[i + 1:i + 6])),
                    p[4] if len(p) > 4 else None))
    return res
