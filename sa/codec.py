"""Helpers to interpret one codec function on chosen abstract arguments."""
from .values import Const, Opaque, Obj, ClassV, FuncV, BytesV, State, INF
from .interp import Interp


def fixbytes(n, name='value'):
    return BytesV([('fix', n, name)])


def run(prog, qual, args, kwargs=None, bind=None, unroll=1, may_raise=True, depth=8, budget=20000,
        loop_hook=None, merge=False, unique=False, record_slices=False):
    f = prog.func(qual)
    ip = Interp(prog, max_paths=budget)
    ip.while_unroll = unroll
    ip.unpack_may_raise = may_raise
    ip.max_depth = depth
    ip.loop_hook = loop_hook
    ip.unique_opaque_calls = unique
    ip.record_slices = record_slices
    if merge:
        ip.merge_loops = True
        ip.merge_ignore_actions = True
    st = State()
    st.frames.append({})
    selfv = None
    if f.kind == 'classmethod':
        selfv = ClassV(bind or f.cls)
    elif f.kind == 'method':
        selfv = st.new_obj('inst', bind or f.cls, hint='self')
    a = [x(st) if callable(x) else x for x in args]
    return f, ip.call_func(FuncV(f, selfv), a, dict(kwargs or {}), st)


def exc_info(v, st):
    """(class name, sub_error) of a raised abstract exception."""
    if isinstance(v, Obj) and v.oid in st.heap:
        h = st.heap[v.oid]
        sub = h.fields.get('sub_error')
        return (getattr(h.cls, 'name', str(h.cls)), sub.value if isinstance(sub, Const) else None)
    return (v.desc().split('(')[0] if hasattr(v, 'desc') else str(v), None)
