"""C02 - the session self-heals (structural part: a restart is always pending)."""
import ast

from ..front import AnalysisError, NotConst, src_of
from ..values import Const, Sym, Opaque, Obj
from ..table import ORDER
from ..session import cval
from . import common

ALLOW_ATOM = 'truth(fsm.allow_automatic_start)'


def allow_of(r):
    """True / False / None (unconstrained) - the value of allow_automatic_start assumed on the path."""
    for t, b in r.guards:
        if t == ALLOW_ATOM:
            return b
    v = r.field('fsm', 'allow_automatic_start')
    if isinstance(v, Const):
        return bool(v.value)
    return None


def has_token(r):
    """A reconnection is pending at the end of the path."""
    if r.timer_final('idle_hold') == 'armed':
        return 'idle-hold timer armed'
    if r.connects():
        return 'TCP connect started'
    if r.closes() and r.event not in ('TCP_DOWN', 'TCP_CLOSED'):
        return 'close requested (connectionLost -> connection_closed -> automatic_start)'
    return None


def closed_rearms_rule(tab, rep, rule):
    """connectionLost after our own close arms the idle-hold timer on every path where automatic start is allowed."""
    for state in ORDER:
        rows = [r for r in tab.get('TCP_CLOSED', state) if allow_of(r) is not False]
        key = 'TCP_CLOSED@%s' % state
        bad = [r for r in rows if r.timer_final('idle_hold') != 'armed' and not r.connects()]
        extra = sorted(set(t for r in rows for t, b in r.guards if t != ALLOW_ATOM))
        if not rows:
            rep.bad(rule, key, file='yabgp/core/protocol.py', found='no path with automatic start allowed',
                    key=key)
        elif bad:
            rep.bad(rule, key, file=common.row_file(bad[0]), line=common.row_line(bad[0]),
                    func='BGPPeering.connection_closed',
                    found='connectionLost after our close does not arm the idle-hold timer (guards: %s)' %
                          bad[0].guard_text(), expected='automatic_start(idle_hold=True)', key=key,
                    path=bad[0].describe())
        else:
            rep.ok(rule, key, file='yabgp/core/factory.py', line=common.row_line(rows[0]),
                   found='idle-hold armed on %d path(s); other guards: %s' % (len(rows), extra or 'none'))


def session_hold_time_rule(tab, rep, rule):
    """The hold time an accepted OPEN leaves in the FSM is min(configured value, value proposed in this OPEN)."""
    n_acc = 0
    bad_e = None
    for r in tab.get('WIRE', 'OpenSent'):
        if r.wire['cls'] == 'OPEN' and r.final == 'OpenConfirm':
            n_acc += 1
            h = r.field('fsm', 'hold_time')
            good = isinstance(h, Sym) and h.origin and h.origin[0] == 'min' and \
                any(a.desc().startswith(('CONF.', 'cfg.', 'oslo_config')) for a in h.origin[1]) and \
                any(r.st.syminfo.get(a.desc(), (None,))[0] == '!BHHIB' for a in h.origin[1])
            if not good and bad_e is None:
                bad_e = (r, h)
    if bad_e:
        r, h = bad_e
        rep.bad(rule, 'session-hold-time', file='yabgp/core/protocol.py', line=common.row_line(r),
                func='BGP.negotiate_hold_time', found='session hold time = %s: a value left in the FSM by an earlier '
                'session decides this one (an earlier OPEN with hold time 1/2 then blocks every later OPEN)' % cval(h),
                expected='min(configured hold time, peer proposal)', key='session-hold-time', path=r.describe())
    elif n_acc:
        rep.ok(rule, 'session-hold-time', file='yabgp/core/protocol.py', found='%d accepting paths' % n_acc)
    else:
        rep.undecided(rule, 'session-hold-time', found='no accepting path')



def open_keys_guarded(prog, rep, rule):
    """send_open must not fail on a capability key: the local capability dictionary loses keys when a peer's OPEN lacks
    them (capability_negotiate pops), so every my_capability['k'] that building the OPEN reads is dominated by a test
    of that key."""
    oc = prog.func('yabgp.message.open.Open.construct')
    cc = prog.func('yabgp.message.open.Capability.construct')
    ccls = cc.cls
    # keys read per capability code inside Capability.construct
    per_code = {}
    for n in ast.walk(cc.node):
        if isinstance(n, ast.Subscript) and isinstance(n.ctx, ast.Load) and src_of(n.value) == 'my_capability' and \
                isinstance(n.slice, ast.Constant):
            conds = common.conds_at(cc.node, n)
            code = None
            for t, truth in conds:
                if truth and isinstance(t, ast.Compare) and src_of(t.left) == 'self.capa_code':
                    c0 = t.comparators[0]
                    code = prog.try_fold(c0, cc.module, ccls)
                    if code is None and isinstance(c0, ast.Attribute) and src_of(c0.value) in ('self', 'cls'):
                        _c, ex = ccls.find_attr(c0.attr)
                        code = prog.try_fold(ex, cc.module, ccls) if ex is not None else None
            guarded = common.holds(conds, lambda e, k=n.slice.value: repr(k) in src_of(e) and 'my_capability' in src_of(e))
            if not guarded:
                per_code.setdefault(code, set()).add(n.slice.value)
    nsites = 0
    bad = None
    for n in ast.walk(oc.node):
        keys = set()
        if isinstance(n, ast.Call) and isinstance(n.func, ast.Attribute) and n.func.attr == 'construct' and \
                isinstance(n.func.value, ast.Call) and src_of(n.func.value.func) == 'Capability':
            code = None
            for k in n.func.value.keywords:
                if k.arg == 'capa_code':
                    code = prog.try_fold(k.value, oc.module, oc.cls)
            if n.args:
                keys |= per_code.get(code, set())
            for x in ast.walk(n):
                if isinstance(x, ast.Subscript) and src_of(x.value) == 'my_capability' and isinstance(x.slice, ast.Constant):
                    keys.add(x.slice.value)
        if not keys:
            continue
        nsites += 1
        conds = common.conds_at(oc.node, n)
        for k in sorted(keys):
            if not common.holds(conds, lambda e, k=k: repr(k) in src_of(e) and 'my_capability' in src_of(e)) and bad is None:
                bad = (n, k)
    key = 'open-capability-keys'
    if bad:
        n, k = bad
        rep.bad(rule, key, file=oc.file, line=n.lineno, func=oc.qualname,
                found='%s reads my_capability[%r] without a test of that key: after a session with a peer whose OPEN '
                      'lacked the capability the key is gone (capability_negotiate), send_open raises KeyError inside '
                      'connectionMade and no later connection ever sends an OPEN' % (src_of(n)[:70], k),
                expected='`%s in my_capability` / my_capability.get around the call' % k, key=key)
    elif nsites:
        rep.ok(rule, key, file=oc.file, line=oc.node.lineno, found='%d capability constructor(s) read keys, all guarded' % nsites)
    else:
        rep.undecided(rule, key, found='no capability constructor reading my_capability found')


def check(prog, rep, tier):
    rep.rule('R02.a', 'restart token: every non-operator path that ends in Idle (or consumes a pending '
                      'restart while in Idle) leaves a reconnection pending: idle-hold timer armed, TCP '
                      'connect started, or a close whose connectionLost re-arms it')
    rep.rule('R02.c', 'restart chain: connectionLost after our close arms the idle-hold timer, its expiry '
                      'in Idle starts a TCP connect, under no guard other than allow_automatic_start')
    rep.rule('R02.d', 'no sticky gate: allow_automatic_start is written only by construction, manual start '
                      'and manual stop')
    rep.rule('R02.e', 'no earlier session changes what the next one negotiates: the session hold time is '
                      'min(configured value, value proposed in this OPEN), never a value left by an earlier session')
    rep.rule('R02.j', 'every reconnect can send its OPEN: each my_capability[key] read while the OPEN is built is dominated by a '
                      'test of that key (negotiation removes keys from the local capability set)')
    rep.rule('R02.i', 'the timer primitives behind the restart chain (BGPTimer.reset / cancel / active) keep the handle of '
                      'the pending call and call the FSM callback directly')
    rep.rule('R02.h', 'stays up (necessary conditions): in OpenConfirm / Established no hold or keepalive timer is armed '
                      'with a value that can be 0, and a late connectionLost of a replaced connection leaves the '
                      'tracked connection and the state alone')
    rep.rule('R02.g', 'a failed or lost TCP connection is never ignored in a session state: every such row ends in '
                      'Idle (or Active from OpenSent) with the reconnection pending')
    rep.rule('R02.f', 'Active is transient: no path ends in Active, the only connectTCP targets the BGP '
                      'port (so paths with pre-state Active are exempt from R02.a)')
    rep.assumptions += ['loseConnection() is followed by connectionLost() (Twisted)',
                        'numeric bound idle_hold + connect time and staying up are not decided']
    facts = common.env_facts(prog)
    tab = common.get_table(prog, dot_dead=facts['dot_dead'])
    rep.analysed['table_rows'] = sum(len(v) for v in tab.rows.values())

    # ---------------------------------------------------------------- R02.f
    active_persistent = False
    for (ev, state), rows in sorted(tab.rows.items()):
        for r in rows:
            if r.final == 'Active' and r.pre != 'Active':
                active_persistent = True
                rep.note('path %s@%s ends in Active: Active rows are no longer exempt from R02.a' % (ev, state))
                break
    cm = prog.module('yabgp.common.constants')
    port = prog.fold(cm.assigns['PORT'], cm)
    nconn = 0
    for (ev, state), rows in tab.rows.items():
        for r in rows:
            for e in r.connects():
                nconn += 1
                p = e[1].get('port')
                if cval(p) != port:
                    active_persistent = True
    if active_persistent:
        rep.ok('R02.f', 'active-transient', found='Active can persist: exemption dropped', nontrivial=False)
    else:
        rep.ok('R02.f', 'active-transient', file='yabgp/core/factory.py',
               found='no path ends in Active; %d connectTCP sites use port %s' % (nconn, port))

    # ---------------------------------------------------------------- R02.a
    nchk = 0
    seen = {}
    for (ev, state), rows in sorted(tab.rows.items()):
        if ev in ('MSTOP',):
            continue
        if ev == 'T_delay_open' and facts['dot_dead']:
            continue
        if state == 'Active' and not active_persistent:
            continue
        for r in rows:
            if r.kind == 'raise' or r.final != 'Idle':
                continue
            if allow_of(r) is False:
                continue                # operator stopped the peer: C13
            consumes = (ev in ('T_idle_hold', 'TCP_CLOSED')) or \
                any(t[0] == 'idle_hold' and t[1] == 'cancel' for t in r.timer_ops())
            if r.pre == 'Idle' and not consumes:
                continue                # nothing consumed: the pending restart is untouched
            if r.pre == 'Idle' and ev == 'T_idle_hold' and r.regime != 'none' and False:
                continue
            nchk += 1
            name = '%s@%s' % (ev if ev != 'WIRE' else 'WIRE:' + r.wire['cls'], state)
            tok = has_token(r)
            if tok is None:
                if seen.get(name) != 'bad':
                    seen[name] = 'bad'
                    rep.bad('R02.a', name, file=common.row_file(r), line=common.row_line(r),
                            func=common.row_func(r),
                            found='ends in Idle with automatic start allowed and nothing pending '
                                  '(idle-hold %s, no connect, no close)' % r.timer_final('idle_hold'),
                            expected='a restart token', key=name, path=r.describe())
            elif name not in seen:
                seen[name] = 'ok'
                rep.ok('R02.a', name, file=common.row_file(r), line=common.row_line(r), found=tok)
    rep.floor('R02.a', 'paths to Idle checked', nchk, 150)

    # ---------------------------------------------------------------- R02.j
    open_keys_guarded(prog, rep, 'R02.j')

    # ---------------------------------------------------------------- R02.c
    closed_rearms_rule(tab, rep, 'R02.c')
    rows = [r for r in tab.get('T_idle_hold', 'Idle') if allow_of(r) is not False]
    bad = [r for r in rows if not r.connects() or r.final != 'Connect']
    if not rows or bad:
        b = bad[0] if bad else None
        rep.bad('R02.c', 'T_idle_hold@Idle', file='yabgp/core/fsm.py', line=common.row_line(b) if b else None,
                found='idle-hold expiry in Idle does not start a connect (guards: %s)' %
                      (b.guard_text() if b else 'no path'), expected='connectTCP, Connect',
                key='T_idle_hold@Idle', path=b.describe() if b else None)
    else:
        rep.ok('R02.c', 'T_idle_hold@Idle', file='yabgp/core/fsm.py', line=common.row_line(rows[0]),
               found='%d path(s) start a connect' % len(rows))

    # a requested close must be recognisable as ours when connectionLost arrives, otherwise the
    # restart chain of TCP_CLOSED is never entered
    seen_c = {}
    for (ev, state), rows in sorted(tab.rows.items()):
        for r in rows:
            if not r.closes() or r.poid is None:
                continue
            name = 'close-marks-disconnected:%s@%s' % (ev if ev != 'WIRE' else 'WIRE:' + r.wire['cls'], state)
            tracked = r.field('fsm', 'protocol')
            poid = tracked.oid if isinstance(tracked, Obj) else r.poid
            closed_here = set(e[1].split('.')[0] for e in r.closes())
            ok = True
            for oid, h in r.st.heap.items():
                if h.kind == 'inst' and isinstance(h.fields.get('transport'), Obj) and \
                        h.fields['transport'].oid in closed_here:
                    d = h.fields.get('disconnected')
                    if not (isinstance(d, Const) and d.value is True):
                        ok = False
            if ok:
                if name not in seen_c:
                    seen_c[name] = 'ok'
            elif seen_c.get(name) != 'bad':
                seen_c[name] = 'bad'
                rep.bad('R02.c', name, file=common.row_file(r), line=common.row_line(r), func='BGP.closeConnection',
                        found='the connection is closed but not marked as closed by us (disconnected stays %s): '
                              'connectionLost will report a peer failure and skip connection_closed()' % (
                                  'unset',), expected='disconnected = True with loseConnection()', key=name,
                        path=r.describe())
    if seen_c and all(v == 'ok' for v in seen_c.values()):
        rep.ok('R02.c', 'close-marks-disconnected', file='yabgp/core/protocol.py',
               found='%d closing cells mark the protocol as disconnected' % len(seen_c))

    # ---------------------------------------------------------------- R02.i: the timers the restart chain relies on
    from .c03 import timer_shape
    timer_shape(prog, rep, rule='R02.i')

    # ---------------------------------------------------------------- R02.h: stays up
    # two structural conditions of "stays up while the peer cooperates": nothing the cooperative peer sends arms a
    # timer with 0 seconds (it would fire at once and tear the session down), and the close report of an earlier
    # connection does not disturb the live one
    from .c03 import zero_hold_resets
    from .c12 import stale_lost_rule
    zero_hold_resets(tab, facts, rep, 'R02.h', only_states=('OpenConfirm', 'Established'))
    stale_lost_rule(tab, rep, 'R02.h')

    # ---------------------------------------------------------------- R02.g
    from .. import profile as P
    for ev in ('TCP_DOWN', 'TCP_FAIL'):
        for state in ORDER:
            if state == 'Active' and not active_persistent:
                continue
            rows = tab.get(ev, state)
            badr = None
            for r in rows:
                okp, probs, alt = P.evaluate(P.PROFILE[ev][state], r)
                if not okp:
                    badr = (r, probs, alt)
                    break
            key = '%s@%s' % (ev, state)
            if badr:
                r, probs, alt = badr
                rep.bad('R02.g', key, file=common.row_file(r) or 'yabgp/core/fsm.py', line=common.row_line(r),
                        func='FSM.connection_failed', found='; '.join(probs) + ': the FSM keeps a session state on '
                        'a dead transport, nothing restarts it before a timer (if any) expires',
                        expected=alt, key=key, path=r.describe())
            elif rows:
                rep.ok('R02.g', key, file='yabgp/core/fsm.py', line=common.row_line(rows[0]))

    # ---------------------------------------------------------------- R02.e
    session_hold_time_rule(tab, rep, 'R02.e')

    # ---------------------------------------------------------------- R02.d
    allowed = {'__init__', 'manual_start', 'manual_stop'}
    for f, tgt, val, st in common.attr_stores(prog, 'allow_automatic_start'):
        key = 'writer:%s' % f.qualname
        if f.name in allowed:
            rep.ok('R02.d', key, file=f.file, line=st.lineno, found=src_of(st))
        else:
            rep.bad('R02.d', key, file=f.file, line=st.lineno, func=f.qualname, found=src_of(st),
                    expected='written only by __init__/manual_start/manual_stop', key=key)
    # and dynamically: no non-operator path changes it
    for (ev, state), rows in sorted(tab.rows.items()):
        if ev in ('MSTART', 'MSTART_HOLD', 'MSTOP'):
            continue
        for r in rows:
            for (obj, fld, v, line, fq) in r.st.writes:
                if fld == 'allow_automatic_start':
                    key = 'path-writer:%s@%s' % (ev, state)
                    rep.bad('R02.d', key, file='yabgp/core/fsm.py', line=line, func=fq,
                            found='%s changes allow_automatic_start to %s' % (ev, cval(v)), key=key)
