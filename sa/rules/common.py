"""Helpers shared by the rule modules."""
import ast

from ..front import AnalysisError, NotConst, src_of, FuncInfo
from ..table import Table

_TABLES = {}
_PROG = None

FSM_Q = 'yabgp.core.fsm.FSM'
CONS_Q = 'yabgp.common.constants'


def get_table(prog, dot_dead=True, wire=True):
    global _PROG
    _PROG = prog
    key = (id(prog), dot_dead, wire)
    if key not in _TABLES:
        _TABLES[key] = Table(prog, dot_dead=dot_dead, wire=wire)
    return _TABLES[key]


def _last_action(r):
    for a in reversed(r.actions):
        if a.line is not None and a.func:
            return a
    return None


def row_line(r):
    a = _last_action(r)
    return a.line if a else None


def row_func(r):
    a = _last_action(r)
    return a.func if a else None


def row_file(r):
    a = _last_action(r)
    if a and _PROG is not None:
        try:
            return _PROG.func(a.func).file
        except AnalysisError:
            return None
    return None


def attr_stores(prog, attr):
    """All assignments `<expr>.<attr> = value` (incl. augmented, chained) in the package.
    -> list of (FuncInfo|None, target node, value node, stmt)."""
    out = []
    for f in prog.all_functions():
        for st in ast.walk(f.node):
            if isinstance(st, ast.Assign):
                for t in st.targets:
                    for tt in (t.elts if isinstance(t, (ast.Tuple, ast.List)) else [t]):
                        if isinstance(tt, ast.Attribute) and tt.attr == attr:
                            out.append((f, tt, st.value, st))
            elif isinstance(st, (ast.AugAssign, ast.AnnAssign)):
                if isinstance(st.target, ast.Attribute) and st.target.attr == attr:
                    out.append((f, st.target, st.value, st))
            elif isinstance(st, ast.Call) and isinstance(st.func, ast.Name) and st.func.id == 'setattr' \
                    and len(st.args) >= 3 and isinstance(st.args[1], ast.Constant) and st.args[1].value == attr:
                out.append((f, st.args[0], st.args[2], st))
    return out


def state_writers(prog):
    """(function, folded value, node) for every store to an attribute named `state` whose
    value folds to one of the FSM state constants."""
    cm = prog.module(CONS_Q)
    vals = set()
    for n in ('ST_IDLE', 'ST_CONNECT', 'ST_ACTIVE', 'ST_OPENSENT', 'ST_OPENCONFIRM', 'ST_ESTABLISHED'):
        vals.add(prog.fold(cm.assigns[n], cm))
    out = []
    for f, tgt, val, st in attr_stores(prog, 'state'):
        try:
            v = prog.fold(val, f.module, f.cls)
        except NotConst:
            # chained assignment a = b = CONST is one Assign with two targets; other
            # non-constant writes are reported by the caller
            v = None
        if v in vals:
            out.append((f, v, st))
        elif v is None and f.module.name.startswith('yabgp.core'):
            out.append((f, src_of(val), st))
    return out


def has_callers(prog, f):
    """Is the function's name used as an attribute / name anywhere else in the package?"""
    for m in prog.modules.values():
        for n in ast.walk(m.tree):
            if isinstance(n, ast.Attribute) and n.attr == f.name:
                return True
            if isinstance(n, ast.Name) and n.id == f.name and not isinstance(n.ctx, ast.Store):
                return True
    return False


def resolve_class(prog, expr, f):
    """Resolve an expression to a ClassInfo, following class-attribute / module aliases."""
    r = prog.resolve_expr(expr, f.module, f.cls)
    for _ in range(6):
        if isinstance(r, tuple) and r[0] in ('assign', 'classattr'):
            owner = r[1]
            mod = owner.module if hasattr(owner, 'module') else owner
            cls = owner if hasattr(owner, 'module') else None
            r = prog.resolve_expr(r[2], mod, cls)
        else:
            break
    return r


def env_facts(prog):
    """R01.e: facts about the code base the extractor relies on."""
    checks = []
    fsm = prog.cls(FSM_Q)
    init = fsm.find_method('__init__')
    # 1. delay_open has the single writer __init__ = False
    stores = attr_stores(prog, 'delay_open')
    ok = bool(stores)
    detail = []
    for f, tgt, val, st in stores:
        c = isinstance(val, ast.Constant) and val.value is False
        if not (f is init and c):
            ok = False
        detail.append('%s: %s' % (f.qualname, src_of(st)))
    dot_dead = ok
    checks.append(('delay_open-single-writer-False', True, (fsm.module.relpath, init.node.lineno),
                   '; '.join(detail) + (' => DelayOpen off' if ok else ' => DelayOpen may be on: both arms kept')))
    # 2. the only instantiation of FSM passes the peering
    n_inst = 0
    good = True
    where = (fsm.module.relpath, fsm.node.lineno)
    for f in prog.all_functions():
        for n in ast.walk(f.node):
            if isinstance(n, ast.Call):
                r = resolve_class(prog, n.func, f)
                if r is fsm:
                    n_inst += 1
                    where = (f.file, n.lineno)
                    if not (n.args and isinstance(n.args[0], ast.Name) and n.args[0].id == 'self') and \
                            not any(k.arg == 'bgp_peering' for k in n.keywords):
                        good = False
    checks.append(('fsm-instantiated-with-peering', good and n_inst >= 1, where,
                   '%d instantiation(s) of FSM' % n_inst))
    return {'checks': checks, 'dot_dead': dot_dead}


def helper_returns(module):
    """name -> source of the returned expression, for module-level zero-argument helpers whose body
    is a single `return <expr>` (after an optional docstring)."""
    out = {}
    for name, f in module.functions.items():
        if f.params:
            continue
        body = [b for b in f.node.body if not (isinstance(b, ast.Expr) and isinstance(b.value, ast.Constant))]
        if len(body) == 1 and isinstance(body[0], ast.Return) and body[0].value is not None:
            out[name] = src_of(body[0].value)
    return out


def expand_helpers(module, text, depth=3):
    """Replace calls `helper()` of trivial module-level helpers by the expression they return."""
    hr = helper_returns(module)
    for _ in range(depth):
        new = text
        for name, expr in hr.items():
            new = new.replace('%s()' % name, expr)
        if new == text:
            break
        text = new
    return text
