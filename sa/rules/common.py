"""Helpers shared by the rule modules."""
import ast

from ..front import AnalysisError, NotConst, src_of, FuncInfo
from ..table import Table

_TABLES = {}
_PROG = None

FSM_Q = 'yabgp.core.fsm.FSM'
CONS_Q = 'yabgp.common.constants'


def get_table(prog, dot_dead=True, wire=True):
    global _PROG
    _PROG = prog
    key = (id(prog), dot_dead, wire)
    if key not in _TABLES:
        _TABLES[key] = Table(prog, dot_dead=dot_dead, wire=wire)
    return _TABLES[key]


def _last_action(r):
    for a in reversed(r.actions):
        if a.line is not None and a.func:
            return a
    return None


def row_line(r):
    a = _last_action(r)
    return a.line if a else None


def row_func(r):
    a = _last_action(r)
    return a.func if a else None


def row_file(r):
    a = _last_action(r)
    if a and _PROG is not None:
        try:
            return _PROG.func(a.func).file
        except AnalysisError:
            return None
    return None


def attr_stores(prog, attr):
    """All assignments `<expr>.<attr> = value` (incl. augmented, chained) in the package.
    -> list of (FuncInfo|None, target node, value node, stmt)."""
    out = []
    for f in prog.all_functions():
        for st in ast.walk(f.node):
            if isinstance(st, ast.Assign):
                for t in st.targets:
                    for tt in (t.elts if isinstance(t, (ast.Tuple, ast.List)) else [t]):
                        if isinstance(tt, ast.Attribute) and tt.attr == attr:
                            out.append((f, tt, st.value, st))
            elif isinstance(st, (ast.AugAssign, ast.AnnAssign)):
                if isinstance(st.target, ast.Attribute) and st.target.attr == attr:
                    out.append((f, st.target, st.value, st))
            elif isinstance(st, ast.Call) and isinstance(st.func, ast.Name) and st.func.id == 'setattr' \
                    and len(st.args) >= 3 and isinstance(st.args[1], ast.Constant) and st.args[1].value == attr:
                out.append((f, st.args[0], st.args[2], st))
    return out


def state_writers(prog):
    """(function, folded value, node) for every store to an attribute named `state` whose
    value folds to one of the FSM state constants."""
    cm = prog.module(CONS_Q)
    vals = set()
    for n in ('ST_IDLE', 'ST_CONNECT', 'ST_ACTIVE', 'ST_OPENSENT', 'ST_OPENCONFIRM', 'ST_ESTABLISHED'):
        vals.add(prog.fold(cm.assigns[n], cm))
    out = []
    for f, tgt, val, st in attr_stores(prog, 'state'):
        try:
            v = prog.fold(val, f.module, f.cls)
        except NotConst:
            # chained assignment a = b = CONST is one Assign with two targets; other
            # non-constant writes are reported by the caller
            v = None
        if v in vals:
            out.append((f, v, st))
        elif v is None and f.module.name.startswith('yabgp.core'):
            out.append((f, src_of(val), st))
    return out


def has_callers(prog, f):
    """Is the function's name used as an attribute / name anywhere else in the package?"""
    for m in prog.modules.values():
        for n in ast.walk(m.tree):
            if isinstance(n, ast.Attribute) and n.attr == f.name:
                return True
            if isinstance(n, ast.Name) and n.id == f.name and not isinstance(n.ctx, ast.Store):
                return True
    return False


def resolve_class(prog, expr, f):
    """Resolve an expression to a ClassInfo, following class-attribute / module aliases."""
    r = prog.resolve_expr(expr, f.module, f.cls)
    for _ in range(6):
        if isinstance(r, tuple) and r[0] in ('assign', 'classattr'):
            owner = r[1]
            mod = owner.module if hasattr(owner, 'module') else owner
            cls = owner if hasattr(owner, 'module') else None
            r = prog.resolve_expr(r[2], mod, cls)
        else:
            break
    return r


def env_facts(prog):
    """R01.e: facts about the code base the extractor relies on."""
    checks = []
    fsm = prog.cls(FSM_Q)
    init = fsm.find_method('__init__')
    # 1. delay_open has the single writer __init__ = False
    stores = attr_stores(prog, 'delay_open')
    ok = bool(stores)
    detail = []
    for f, tgt, val, st in stores:
        c = isinstance(val, ast.Constant) and val.value is False
        if not (f is init and c):
            ok = False
        detail.append('%s: %s' % (f.qualname, src_of(st)))
    dot_dead = ok
    checks.append(('delay_open-single-writer-False', True, (fsm.module.relpath, init.node.lineno),
                   '; '.join(detail) + (' => DelayOpen off' if ok else ' => DelayOpen may be on: both arms kept')))
    # 2. the only instantiation of FSM passes the peering
    n_inst = 0
    good = True
    where = (fsm.module.relpath, fsm.node.lineno)
    for f in prog.all_functions():
        for n in ast.walk(f.node):
            if isinstance(n, ast.Call):
                r = resolve_class(prog, n.func, f)
                if r is fsm:
                    n_inst += 1
                    where = (f.file, n.lineno)
                    if not (n.args and isinstance(n.args[0], ast.Name) and n.args[0].id == 'self') and \
                            not any(k.arg == 'bgp_peering' for k in n.keywords):
                        good = False
    checks.append(('fsm-instantiated-with-peering', good and n_inst >= 1, where,
                   '%d instantiation(s) of FSM' % n_inst))
    return {'checks': checks, 'dot_dead': dot_dead}


def helper_returns(module):
    """name -> source of the returned expression, for module-level zero-argument helpers whose body
    is a single `return <expr>` (after an optional docstring)."""
    out = {}
    for name, f in module.functions.items():
        if f.params:
            continue
        body = [b for b in f.node.body if not (isinstance(b, ast.Expr) and isinstance(b.value, ast.Constant))]
        if len(body) == 1 and isinstance(body[0], ast.Return) and body[0].value is not None:
            out[name] = src_of(body[0].value)
    return out


def expand_helpers(module, text, depth=3):
    """Replace calls `helper()` of trivial module-level helpers by the expression they return."""
    hr = helper_returns(module)
    for _ in range(depth):
        new = text
        for name, expr in hr.items():
            new = new.replace('%s()' % name, expr)
        if new == text:
            break
        text = new
    return text


# ---------------------------------------------------------------------------------------------------
# order / multiplicity of input collections

_REORDER_FUNCS = {'sorted', 'set', 'frozenset', 'reversed'}
_REORDER_METHODS = {'sort', 'reverse'}


def _flows(expr, tainted):
    """Does a tainted collection (or an element of one) flow through `expr` unchanged?  Arithmetic,
    comparisons and boolean operators produce new scalars and stop the flow."""
    if isinstance(expr, ast.Name):
        return expr.id in tainted
    if isinstance(expr, (ast.Subscript, ast.Attribute, ast.Starred)):
        return _flows(expr.value, tainted)
    if isinstance(expr, (ast.Tuple, ast.List, ast.Set)):
        return any(_flows(e, tainted) for e in expr.elts)
    if isinstance(expr, ast.Call):
        if isinstance(expr.func, ast.Attribute) and _flows(expr.func.value, tainted):
            return True
        return any(_flows(a, tainted) for a in expr.args)
    if isinstance(expr, (ast.ListComp, ast.GeneratorExp, ast.SetComp)):
        t2 = set(tainted)
        for g in expr.generators:
            if _flows(g.iter, t2):
                t2 |= {n.id for n in ast.walk(g.target) if isinstance(n, ast.Name)}
        return _flows(expr.elt, t2)
    if isinstance(expr, ast.IfExp):
        return _flows(expr.body, tainted) or _flows(expr.orelse, tainted)
    return False


def reorder_sites(prog, pred):
    """Call sites in the functions selected by `pred` that sort, reverse or de-duplicate a collection
    holding elements of the function's input (name-level flow: parameters, their elements via
    for / subscript, plain copies and .append / .extend / += of those)."""
    out = []
    nfun = 0
    for f in prog.all_functions():
        if not pred(f):
            continue
        nfun += 1
        tainted = {a.arg for a in f.node.args.args + f.node.args.kwonlyargs if a.arg not in ('self', 'cls')}
        for _ in range(4):
            before = len(tainted)
            for n in ast.walk(f.node):
                if isinstance(n, ast.Assign) and _flows(n.value, tainted):
                    for t in n.targets:
                        tainted |= {x.id for x in ast.walk(t) if isinstance(x, ast.Name) and isinstance(x.ctx, ast.Store)}
                elif isinstance(n, ast.AugAssign) and isinstance(n.target, ast.Name) and _flows(n.value, tainted):
                    tainted.add(n.target.id)
                elif isinstance(n, (ast.For, ast.comprehension)) and _flows(n.iter, tainted):
                    tainted |= {x.id for x in ast.walk(n.target) if isinstance(x, ast.Name)}
                elif isinstance(n, ast.Call) and isinstance(n.func, ast.Attribute) and \
                        n.func.attr in ('append', 'extend', 'insert', 'add', 'update') and \
                        isinstance(n.func.value, ast.Name) and any(_flows(a, tainted) for a in n.args):
                    tainted.add(n.func.value.id)
            if len(tainted) == before:
                break
        for n in ast.walk(f.node):
            what = None
            if isinstance(n, ast.Call) and isinstance(n.func, ast.Name) and n.func.id in _REORDER_FUNCS and n.args \
                    and _flows(n.args[0], tainted):
                a0 = n.args[0]
                if isinstance(a0, ast.Call) and isinstance(a0.func, ast.Attribute) and a0.func.attr in ('keys', 'items'):
                    continue        # dict keys: equality of the decoded dict does not depend on their order
                what = '%s(%s)' % (n.func.id, src_of(a0))
            elif isinstance(n, ast.Call) and isinstance(n.func, ast.Attribute) and n.func.attr in _REORDER_METHODS \
                    and _flows(n.func.value, tainted):
                what = '%s.%s()' % (src_of(n.func.value), n.func.attr)
            elif isinstance(n, ast.Call) and src_of(n.func) == 'dict.fromkeys' and n.args and _flows(n.args[0], tainted):
                what = 'dict.fromkeys(%s)' % src_of(n.args[0])
            elif isinstance(n, ast.Subscript) and isinstance(n.slice, ast.Slice) and n.slice.step is not None and \
                    src_of(n.slice.step) == '-1' and _flows(n.value, tainted):
                what = '%s[::-1]' % src_of(n.value)
            if what:
                out.append((f, n, what))
    return nfun, out


def well_known_names(prog, rep, rule):
    """Every name Community.parse renders is, after Community.construct's normaliser, a key of the reverse
    table with the same value."""
    cm = prog.modules[CONS_Q]
    I2S = prog.fold(cm.assigns['WELL_KNOW_COMMUNITY_INT_2_STR'], cm)
    S2I = prog.fold(cm.assigns['WELL_KNOW_COMMUNITY_STR_2_INT'], cm)
    cf = prog.func('yabgp.message.attribute.community.Community.construct')
    norm = 'upper' if '.upper()' in src_of(cf.node) else ('lower' if '.lower()' in src_of(cf.node) else None)
    rep.floor(rule, 'well-known names', len(I2S), 11)
    for val, name in sorted(I2S.items()):
        key = 'well-known:%s' % name
        n2 = getattr(name, norm)() if norm else name
        if S2I.get(n2) == val:
            rep.ok(rule, key, file=cm.relpath, line=cm.assign_lines.get('WELL_KNOW_COMMUNITY_INT_2_STR'))
        else:
            rep.bad(rule, key, file=cm.relpath, line=cm.assign_lines.get('WELL_KNOW_COMMUNITY_STR_2_INT'),
                    func=cf.qualname,
                    found='Community.parse renders %r; Community.construct looks up %r, which maps to %s' % (
                        name, n2, S2I.get(n2)), expected='0x%08x' % val, key=key)


# ---------------------------------------------------------------------------------------------------
# off-by-one range guards in encoders

_FIELD_MAX = {2 ** 8 - 1: 1, 2 ** 16 - 1: 2, 2 ** 24 - 1: 3, 2 ** 32 - 1: 4}
# a split one above the boundary (`x <= 0x10000`, `x > 0x10000`): the first value that needs n+1 octets is treated
# as fitting into n (2**8 is left out: 256 is also a plausible byte count)
_FIELD_OVER = {2 ** 16: 2, 2 ** 24: 3, 2 ** 32: 4}


def _raising_conditions(test):
    """Atomic comparisons each of which alone sends control into the raising branch."""
    if isinstance(test, ast.BoolOp) and isinstance(test.op, ast.Or):
        out = []
        for v in test.values:
            out += _raising_conditions(v)
        return out
    if isinstance(test, ast.Compare) and len(test.ops) == 1:
        return [test]
    return []


def boundary_guards(prog, pred, extra_source=None):
    """Guards `if <cmp>: raise` in the selected functions whose comparison rejects exactly the largest value
    of a 1/2/3/4-octet field (x >= 2**k - 1, x > 2**k - 2).  Returns (functions scanned, sites)."""
    sites = []
    nfun = 0

    def scan(fnode, fold, finfo):
        for n in ast.walk(fnode):
            if not isinstance(n, ast.If) or not any(isinstance(x, ast.Raise) for b in n.body for x in ast.walk(b)):
                continue
            for c in _raising_conditions(n.test):
                op = c.ops[0]
                lv, rv = fold(c.left), fold(c.comparators[0])
                if isinstance(rv, int) and not isinstance(lv, int):
                    k, o = rv, op
                elif isinstance(lv, int) and not isinstance(rv, int):
                    k = lv
                    o = {ast.Lt: ast.Gt, ast.LtE: ast.GtE, ast.Gt: ast.Lt, ast.GtE: ast.LtE}.get(type(op), type(op))()
                else:
                    continue
                if isinstance(o, ast.GtE):
                    accepted_max = k - 1
                elif isinstance(o, ast.Gt):
                    accepted_max = k
                else:
                    continue
                if accepted_max + 1 in _FIELD_MAX:
                    sites.append((finfo, c, accepted_max))
    for f in prog.all_functions():
        if pred(f):
            nfun += 1
            scan(f.node, lambda e, f=f: prog.try_fold(e, f.module, f.cls), f)
    if extra_source is not None:
        def cf(e):
            try:
                return ast.literal_eval(e)
            except Exception:
                return None
        scan(ast.parse(extra_source), cf, None)
    return nfun, sites


BOUNDARY_WITNESS = """
def f(x):
    if x < 0 or x >= 0xffffffff:
        raise ValueError(x)
"""


# ---------------------------------------------------------------------------------------------------
# structural path conditions and local un-aliasing (shape rules that survive guard clauses / named locals)

def _always_leaves(stmts):
    """Does this statement list end control flow of the function (return / raise) on every path?"""
    for st in stmts:
        if isinstance(st, (ast.Return, ast.Raise)):
            return True
        if isinstance(st, ast.If) and st.orelse and _always_leaves(st.body) and _always_leaves(st.orelse):
            return True
    return False


def conds_at(func_node, target):
    """[(test expression, truth)] known when control reaches `target`: tests of enclosing if/else arms and
    of earlier sibling guard clauses (`if T: return/raise` => not T afterwards)."""
    out = []

    def walk(stmts, acc):
        acc = list(acc)
        for st in stmts:
            if any(x is target for x in ast.walk(st)):
                if isinstance(st, ast.If):
                    if any(x is target for x in ast.walk(st.test)):
                        return acc
                    if any(x is target for b in st.body for x in ast.walk(b)):
                        return walk(st.body, acc + [(st.test, True)])
                    return walk(st.orelse, acc + [(st.test, False)])
                for fld in ('body', 'orelse', 'finalbody'):
                    blk = getattr(st, fld, None)
                    if isinstance(blk, list) and any(x is target for b in blk for x in ast.walk(b)):
                        return walk(blk, acc)
                for h in getattr(st, 'handlers', []) or []:
                    if any(x is target for b in h.body for x in ast.walk(b)):
                        return walk(h.body, acc)
                return acc
            if isinstance(st, ast.If):
                if _always_leaves(st.body) and not st.orelse:
                    acc.append((st.test, False))
                elif st.orelse and _always_leaves(st.orelse) and not _always_leaves(st.body):
                    acc.append((st.test, True))
        return acc
    body = func_node.body if hasattr(func_node, 'body') else []
    return walk(body, out)


def holds(conds, pred):
    """Is a condition matching `pred(expr)` known to hold?  `not X` known false counts as X true."""
    for t, truth in conds:
        e, v = t, truth
        while isinstance(e, ast.UnaryOp) and isinstance(e.op, ast.Not):
            e, v = e.operand, not v
        if v and pred(e):
            return True
        if v and isinstance(e, ast.BoolOp) and isinstance(e.op, ast.And) and any(pred(x) for x in e.values):
            return True
        if not v and isinstance(e, ast.BoolOp) and isinstance(e.op, ast.Or):
            # not (A or B) => not A and not B
            for x in e.values:
                if isinstance(x, ast.UnaryOp) and isinstance(x.op, ast.Not) and pred(x.operand):
                    return True
    return False


def unalias_block(func_node, block, depth=3):
    """Deep copy of `block` (an AST) in which loads of single-assignment locals of `func_node` are replaced by
    their defining expressions, and the defining assignments themselves are dropped: two copies of the same
    code that differ only in such named locals become structurally equal."""
    import copy
    single = unalias(func_node, None, as_node='defs')

    class Sub(ast.NodeTransformer):
        def __init__(self, d):
            self.d = d

        def visit_Name(self, n):
            if isinstance(n.ctx, ast.Load) and n.id in single and self.d > 0 and \
                    not any(isinstance(x, ast.Name) and x.id == n.id for x in ast.walk(single[n.id])):
                return Sub(self.d - 1).visit(copy.deepcopy(single[n.id]))
            return n

        def visit_Assign(self, n):
            if len(n.targets) == 1 and isinstance(n.targets[0], ast.Name) and n.targets[0].id in single:
                return None
            return self.generic_visit(n)
    out = Sub(depth).visit(copy.deepcopy(block))
    ast.fix_missing_locations(out)
    return out


def unalias(func_node, expr, depth=3, as_node=None):
    """Source text of `expr` with every local name that is assigned exactly once (plain name = value)
    replaced by its value."""
    defs = {}
    for st in ast.walk(func_node):
        if isinstance(st, ast.Assign) and len(st.targets) == 1 and isinstance(st.targets[0], ast.Name):
            defs.setdefault(st.targets[0].id, []).append(st.value)
        elif isinstance(st, ast.AugAssign):
            if isinstance(st.target, ast.Name):
                defs.setdefault(st.target.id, []).extend([None, None])
        elif isinstance(st, (ast.For, ast.comprehension)):
            for n in ast.walk(st.target):
                if isinstance(n, ast.Name):
                    defs.setdefault(n.id, []).extend([None, None])
        elif isinstance(st, ast.Assign):
            for t in st.targets:
                for n in ast.walk(t):
                    if isinstance(n, ast.Name) and isinstance(n.ctx, ast.Store):
                        defs.setdefault(n.id, []).extend([None, None])
        elif isinstance(st, (ast.With,)):
            for it in st.items:
                if it.optional_vars is not None:
                    for n in ast.walk(it.optional_vars):
                        if isinstance(n, ast.Name):
                            defs.setdefault(n.id, []).extend([None, None])
        elif isinstance(st, ast.ExceptHandler) and st.name:
            defs.setdefault(st.name, []).extend([None, None])
    for a in getattr(getattr(func_node, 'args', None), 'args', []) or []:
        defs.setdefault(a.arg, []).extend([None, None])
    single = {k: v[0] for k, v in defs.items() if len(v) == 1 and v[0] is not None}
    if as_node == 'defs':
        return single

    class Sub(ast.NodeTransformer):
        def __init__(self, d):
            self.d = d

        def visit_Name(self, n):
            if isinstance(n.ctx, ast.Load) and n.id in single and self.d > 0 and \
                    not any(isinstance(x, ast.Name) and x.id == n.id for x in ast.walk(single[n.id])):
                import copy
                return Sub(self.d - 1).visit(copy.deepcopy(single[n.id]))
            return n
    import copy
    return src_of(Sub(depth).visit(copy.deepcopy(expr)))


def boundary_splits(prog, pred, extra_source=None):
    """Comparisons in the selected functions that split a value range between 2**k - 2 and 2**k - 1
    (k = 8, 16, 24, 32): `x < 0xffff`, `x >= 0xffff`, `x <= 0xfffe`, `x > 0xfffe`, `x in range(0xffff)`.
    The largest value of a 1/2/3/4-octet field then lands on the "does not fit" side.
    Returns (functions scanned, [(FuncInfo | None, node, low_side_max)])."""
    sites = []
    nfun = 0

    def scan(fnode, fold, finfo):
        for n in ast.walk(fnode):
            if not isinstance(n, ast.Compare):
                continue
            operands = [n.left] + list(n.comparators)
            for i, op in enumerate(n.ops):       # chained comparisons: every adjacent pair
                left, right = operands[i], operands[i + 1]
                split = _split_of(op, left, right, fold)
                if split is not None and (split + 1 in _FIELD_MAX or split in _FIELD_OVER):
                    sites.append((finfo, n, split))
                    break

    def _split_of(op, left, right, fold):
            split = None
            if isinstance(op, (ast.In, ast.NotIn)) and isinstance(right, ast.Call) and src_of(right.func) == 'range' \
                    and right.args:
                c = fold(right.args[-1] if len(right.args) <= 2 else right.args[1])
                if isinstance(c, int):
                    split = c - 1
            else:
                lv, rv = fold(left), fold(right)
                if isinstance(rv, int) and not isinstance(rv, bool) and not isinstance(lv, int):
                    c, o = rv, type(op)
                elif isinstance(lv, int) and not isinstance(lv, bool) and not isinstance(rv, int):
                    c = lv
                    o = {ast.Lt: ast.Gt, ast.LtE: ast.GtE, ast.Gt: ast.Lt, ast.GtE: ast.LtE}.get(type(op))
                else:
                    return None
                if o in (ast.Lt, ast.GtE):
                    split = c - 1
                elif o in (ast.LtE, ast.Gt):
                    split = c
            return split
    for f in prog.all_functions():
        if pred(f):
            nfun += 1
            scan(f.node, lambda e, f=f: prog.try_fold(e, f.module, f.cls), f)
    if extra_source is not None:
        def cf(e):
            try:
                return ast.literal_eval(e)
            except Exception:
                return None
        scan(ast.parse(extra_source), cf, None)
    return nfun, sites


def report_boundary_splits(prog, rep, rule, pred):
    """Shared reporting of boundary_splits; the detector must fire on its built-in witness."""
    nf, sites = boundary_splits(prog, pred, extra_source=BOUNDARY_WITNESS)
    if not [x for x in sites if x[0] is None]:
        raise AnalysisError('%s: the boundary detector does not fire on its built-in witness' % rule)
    real = [x for x in sites if x[0] is not None]
    for fn, c, split in real:
        key = 'boundary:%s:%s' % (fn.qualname, src_of(c))
        if split in _FIELD_OVER:
            rep.bad(rule, key, file=fn.file, line=c.lineno, func=fn.qualname,
                    found='%s separates %d from %d: %d, the first value that does not fit into %d octets, is treated '
                          'as fitting' % (src_of(c), split, split + 1, split, _FIELD_OVER[split]),
                    expected='the boundary of an n-octet field lies between 2**(8n) - 1 and 2**(8n)', key=key)
            continue
        rep.bad(rule, key, file=fn.file, line=c.lineno, func=fn.qualname,
                found='%s separates %d from %d: the largest value of a %d-octet field is treated as not fitting, '
                      'while the decoder yields it' % (src_of(c), split, split + 1, _FIELD_MAX[split + 1]),
                expected='the boundary of an n-octet field lies between 2**(8n) - 1 and 2**(8n)', key=key)
    if not real:
        rep.ok(rule, 'field-boundaries', found='%d functions scanned, witness fires' % nf)
    return nf


def unguarded_table_lookups(prog, pred):
    """TABLE[key] reads of a dictionary constant of yabgp.common.constants with a non-constant key, in the
    selected functions, that are not dominated by a test mentioning the same key expression (`key in TABLE`,
    `key == CONST`): for a value outside the table the lookup raises KeyError, which a decoder turns into an
    error for a legal input.  Returns (scanned, [(FuncInfo, node, table, key text)])."""
    cm = prog.module(CONS_Q)
    tables = {k for k, v in cm.assigns.items() if isinstance(v, ast.Dict)}
    out = []
    nfun = 0
    for f in prog.all_functions():
        if not pred(f):
            continue
        nfun += 1
        for x in ast.walk(f.node):
            if not (isinstance(x, ast.Subscript) and isinstance(x.ctx, ast.Load) and
                    isinstance(x.value, (ast.Attribute, ast.Name))):
                continue
            nm = x.value.attr if isinstance(x.value, ast.Attribute) else x.value.id
            if nm not in tables or isinstance(x.slice, ast.Constant):
                continue
            ktxt = src_of(x.slice)
            guarded = any(v and ktxt in src_of(t) for t, v in conds_at(f.node, x))
            if not guarded:
                out.append((f, x, nm, ktxt))
    return nfun, out


def signed_formats(prog, pred, pad=False):
    """struct format strings with a signed code in the selected functions -> (count, [(FuncInfo, node, fmt, codes)])."""
    nfmt = 0
    out = []
    for fn in prog.all_functions():
        if not pred(fn):
            continue
        for n in ast.walk(fn.node):
            if isinstance(n, ast.Call) and src_of(n.func) in ('struct.pack', 'struct.unpack', 'struct.unpack_from',
                                                             'struct.iter_unpack', 'struct.pack_into', 'struct.Struct',
                                                             'pack', 'unpack', 'iter_unpack') and n.args:
                fmt = n.args[0]
                txt = None
                if isinstance(fmt, ast.Constant) and isinstance(fmt.value, str):
                    txt = fmt.value
                elif isinstance(fmt, ast.BinOp) and isinstance(fmt.left, ast.Constant) and \
                        isinstance(fmt.left.value, str):
                    txt = fmt.left.value.replace('%d', '')
                if txt is None:
                    continue
                nfmt += 1
                signed = [c for c in txt if c in ('bhilqx' if pad else 'bhilq')]
                if signed:
                    out.append((fn, n, txt, ''.join(signed)))
    return nfmt, out


def report_signed_formats(prog, rep, rule, pred, floor, pad=False):
    nfmt, sites = signed_formats(prog, pred, pad=pad)
    if not [c for c in '!Bq' if c in 'bhilq']:
        raise AnalysisError('signed-format scanner broken')
    for fn, n, txt, codes in sites:
        key = 'signed:%s:%s' % (fn.qualname, txt)
        if set(codes) == {'x'}:
            rep.bad(rule, key, file=fn.file, line=n.lineno, func=fn.qualname,
                    found='format %r contains the pad code x: on decoding the octet under it is skipped, on encoding it is '
                          'written as zero - a value octet there is lost' % txt, expected='every octet of the field read / '
                          'written', key=key)
            continue
        rep.bad(rule, key, file=fn.file, line=n.lineno, func=fn.qualname,
                found='format %r uses the signed code(s) %s: a wire field with its top bit set decodes as a negative '
                      'number (or cannot be packed)' % (txt, codes), expected='unsigned wire fields', key=key)
    if not sites:
        rep.ok(rule, 'formats-unsigned', found='%d format strings, none signed' % nfmt)
    rep.floor(rule, 'struct format strings', nfmt, floor)


def extcom_name_consistency(prog, rep, rule):
    """BGP_EXT_COM_STR_DICT: within the AS-specific / IPv4-specific / 4-octet-AS-specific types (high octet 0, 1,
    2) a name stands for one sub-type (low octet) and a sub-type has one name - 0x0203 and 0x0003 are the same
    kind of community in two formats, 0x0202 and 0x0203 are different kinds."""
    cm = prog.module(CONS_Q)
    S = prog.fold(cm.assigns['BGP_EXT_COM_STR_DICT'], cm)
    by_name, by_sub = {}, {}
    for code, name in S.items():
        if isinstance(code, int) and code >> 8 in (0, 1, 2):
            by_name.setdefault(name, set()).add(code & 0xff)
            by_sub.setdefault(code & 0xff, set()).add(name)
    bad = [(n, subs) for n, subs in by_name.items() if len(subs) > 1] + \
          [(sub, names) for sub, names in by_sub.items() if len(names) > 1]
    line = cm.assign_lines.get('BGP_EXT_COM_STR_DICT')
    if bad:
        rep.bad(rule, 'extcom-names', file=cm.relpath, line=line,
                found='BGP_EXT_COM_STR_DICT is inconsistent: %s - a community of one kind is rendered with the name of '
                      'another kind' % '; '.join('%r <-> %s' % (a, sorted(map(str, b))) for a, b in bad[:2]),
                expected='one name per sub-type across the three administrator formats', key='extcom-names')
    else:
        rep.ok(rule, 'extcom-names', file=cm.relpath, line=line,
               found='%d sub-types, %d names' % (len(by_sub), len(by_name)))
    rep.floor(rule, 'administrator-format codes', sum(len(v) for v in by_name.values()) and
              len([c for c in S if isinstance(c, int) and c >> 8 in (0, 1, 2)]), 6)


def const_key_lookups(prog, rep, rule, pred, floor):
    """TABLE[KEY] reads where both the table (a dictionary constant of yabgp.common.constants) and the key fold to
    constants: the key must be in the table (a derived or re-written table that lost an entry makes the lookup raise
    KeyError for a legal input)."""
    cm = prog.module(CONS_Q)
    n = 0
    nf = 0
    bad = []
    for f in prog.all_functions():
        if not pred(f):
            continue
        nf += 1
        for x in ast.walk(f.node):
            if not (isinstance(x, ast.Subscript) and isinstance(x.ctx, ast.Load)):
                continue
            r = prog.resolve_expr(x.value, f.module, f.cls) if isinstance(x.value, (ast.Attribute, ast.Name)) else None
            if not (isinstance(r, tuple) and r[0] == 'assign' and r[1] is cm):
                continue
            tab = prog.try_fold(x.value, f.module, f.cls)
            if not isinstance(tab, dict):
                continue
            k = prog.try_fold(x.slice, f.module, f.cls)
            keys = [k] if k is not None else []
            if k is None:
                # a variable key under `key == CONST` / `key in (CONST, ...)`: the constants it can have here
                ks = src_of(x.slice)
                for t, truth in conds_at(f.node, x):
                    if truth and isinstance(t, ast.Compare) and len(t.ops) == 1 and src_of(t.left) == ks:
                        v = prog.try_fold(t.comparators[0], f.module, f.cls)
                        if isinstance(t.ops[0], ast.Eq) and v is not None:
                            keys = [v]
                        elif isinstance(t.ops[0], ast.In) and isinstance(v, (list, tuple, set)):
                            keys = list(v)
            if not keys:
                continue
            n += 1
            for k in keys:
                try:
                    if k not in tab:
                        bad.append((f, x, k))
                except TypeError:
                    pass
    for f, x, k in bad[:4]:
        key = 'table-entry:%s' % src_of(x)
        rep.bad(rule, key, file=f.file, line=x.lineno, func=f.qualname,
                found='%s: the table has no entry %r, the lookup raises KeyError on a legal input' % (src_of(x), k),
                expected='every constant key looked up is in the table', key=key)
    if not bad:
        rep.ok(rule, 'table-entries', found='%d constant-key lookups in %d functions, all present' % (n, nf))
    rep.floor(rule, 'constant-key table lookups', n, floor)
    return n



_FMT_SIZE = {'B': 1, 'b': 1, 'H': 2, 'h': 2, 'I': 4, 'i': 4, 'L': 4, 'l': 4, 'Q': 8, 'q': 8}


def recombination_shifts(prog, rep, rule, pred, floor=0):
    """`(hi << k) | lo` / `(hi << k) + lo` where lo was unpacked with a struct code of n octets: k must be 8 * n
    (a value split over two unpacked fields is put together at the width of its low part)."""
    n = 0
    bad = []
    for f in prog.all_functions():
        if not pred(f):
            continue
        width = {}
        for a in ast.walk(f.node):
            if isinstance(a, ast.Assign) and isinstance(a.value, ast.Call) and \
                    src_of(a.value.func) in ('struct.unpack', 'struct.unpack_from') and a.value.args and \
                    isinstance(a.value.args[0], ast.Constant) and isinstance(a.value.args[0].value, str) and \
                    isinstance(a.targets[0], (ast.Tuple, ast.List)):
                codes = [c for c in a.value.args[0].value if c in _FMT_SIZE or c == 'x']
                codes = [c for c in codes if c != 'x']
                if len(codes) == len(a.targets[0].elts):
                    for t, c in zip(a.targets[0].elts, codes):
                        if isinstance(t, ast.Name):
                            width[t.id] = _FMT_SIZE[c]
        if not width:
            continue
        for b in ast.walk(f.node):
            if isinstance(b, ast.BinOp) and isinstance(b.op, (ast.BitOr, ast.Add)):
                for hi, lo in ((b.left, b.right), (b.right, b.left)):
                    if isinstance(hi, ast.BinOp) and isinstance(hi.op, ast.LShift) and isinstance(lo, ast.Name) and \
                            lo.id in width and isinstance(hi.left, ast.Name) and hi.left.id in width:
                        k = prog.try_fold(hi.right, f.module, f.cls)
                        if not isinstance(k, int):
                            continue
                        n += 1
                        if k != 8 * width[lo.id]:
                            bad.append((f, b, k, lo.id, width[lo.id]))
    for f, b, k, lo, w in bad:
        key = 'recombine:%s:%s' % (f.qualname, src_of(b)[:50])
        rep.bad(rule, key, file=f.file, line=b.lineno, func=f.qualname,
                found='%s: the low part %s was unpacked as %d octet(s) but the high part is shifted by %d bits' % (
                    src_of(b), lo, w, k), expected='shift by %d' % (8 * w), key=key)
    if not bad:
        rep.ok(rule, 'recombination-shifts', found='%d split field(s) recombined at the width of the low part' % n,
               nontrivial=bool(n))
    if floor:
        rep.floor(rule, 'recombined split fields', n, floor)
    return n
