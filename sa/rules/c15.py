"""C15 - list decoders are compositional; attribute order is irrelevant (structural part)."""
import ast

from ..front import AnalysisError, src_of, norm_stmt
from . import common

UPD = 'yabgp.message.update.Update'
SAFE_CALLS = ('struct.unpack', 'len', 'ord', 'int', 'str', 'repr', 'binascii.b2a_hex', 'list', 'bytes',
              'binascii.hexlify', 'bytearray')


def cursor_names(w):
    names = set(n.id for n in ast.walk(w.test) if isinstance(n, ast.Name))
    names |= set(src_of(n) for n in ast.walk(w.test) if isinstance(n, ast.Attribute))
    names -= {'len', 'True', 'False'}
    if isinstance(w.test, ast.Constant):
        for n in ast.walk(ast.Module(body=w.body, type_ignores=[])):
            if isinstance(n, ast.If) and any(isinstance(b, ast.Break) for b in ast.walk(n)):
                names |= set(x.id for x in ast.walk(n.test) if isinstance(x, ast.Name)) - {'len'}
    return names


class _Top(object):
    """Definite-assignment set of a branch that does not fall through (return / continue / break / raise)."""


def _reads(expr):
    return [n for n in ast.walk(expr) if isinstance(n, ast.Name) and isinstance(n.ctx, ast.Load)]


def _targets(t):
    return {n.id for n in ast.walk(t) if isinstance(n, ast.Name) and isinstance(n.ctx, ast.Store)}


def maybe_unassigned_reads(stmts, defs, out):
    """Structured must-definition walk of one loop iteration: records (name, line) for every read of a
    name that is not definitely assigned earlier in the same iteration.  Returns the definite set after
    the statements, or _Top when control does not fall through."""
    defs = set(defs)
    for st in stmts:
        if isinstance(st, (ast.Return, ast.Raise)):
            if getattr(st, 'value', None) is not None:
                out += [(n.id, n.lineno) for n in _reads(st.value) if n.id not in defs]
            if isinstance(st, ast.Raise) and st.exc is not None:
                out += [(n.id, n.lineno) for n in _reads(st.exc) if n.id not in defs]
            return _Top
        if isinstance(st, (ast.Continue, ast.Break)):
            return _Top
        if isinstance(st, ast.Assign):
            out += [(n.id, n.lineno) for n in _reads(st.value) if n.id not in defs]
            for t in st.targets:
                if not isinstance(t, ast.Name):
                    out += [(n.id, n.lineno) for n in _reads(t) if n.id not in defs]
                defs |= _targets(t)
        elif isinstance(st, ast.AugAssign):
            out += [(n.id, n.lineno) for n in _reads(st.value) if n.id not in defs]
            if isinstance(st.target, ast.Name):
                if st.target.id not in defs:
                    out.append((st.target.id, st.lineno))
            else:
                out += [(n.id, n.lineno) for n in _reads(st.target) if n.id not in defs]
        elif isinstance(st, ast.If):
            out += [(n.id, n.lineno) for n in _reads(st.test) if n.id not in defs]
            a = maybe_unassigned_reads(st.body, defs, out)
            b = maybe_unassigned_reads(st.orelse, defs, out)
            if a is _Top and b is _Top:
                return _Top
            defs = b if a is _Top else (a if b is _Top else (a & b))
        elif isinstance(st, ast.For):
            out += [(n.id, n.lineno) for n in _reads(st.iter) if n.id not in defs]
            maybe_unassigned_reads(st.body, defs | _targets(st.target), out)
        elif isinstance(st, ast.While):
            out += [(n.id, n.lineno) for n in _reads(st.test) if n.id not in defs]
            maybe_unassigned_reads(st.body, defs, out)
        elif isinstance(st, ast.Try):
            a = maybe_unassigned_reads(st.body, defs, out)
            outs = [a]
            for h in st.handlers:
                hd = set(defs) | ({h.name} if h.name else set())
                outs.append(maybe_unassigned_reads(h.body, hd, out))
            live = [x for x in outs if x is not _Top]
            if not live:
                return _Top
            d = live[0]
            for x in live[1:]:
                d = d & x
            defs = set(d)
            if st.finalbody:
                r = maybe_unassigned_reads(st.finalbody, defs, out)
                if r is _Top:
                    return _Top
                defs = r
        elif isinstance(st, ast.With):
            for it in st.items:
                out += [(n.id, n.lineno) for n in _reads(it.context_expr) if n.id not in defs]
                if it.optional_vars is not None:
                    defs |= _targets(it.optional_vars)
            r = maybe_unassigned_reads(st.body, defs, out)
            if r is _Top:
                return _Top
            defs = r
        elif isinstance(st, ast.Expr):
            out += [(n.id, n.lineno) for n in _reads(st.value) if n.id not in defs]
        elif isinstance(st, (ast.Delete, ast.Pass, ast.Assert, ast.Global, ast.Import, ast.ImportFrom)):
            pass
        else:
            for n in ast.walk(st):
                if isinstance(n, ast.Name) and isinstance(n.ctx, ast.Load) and n.id not in defs:
                    out.append((n.id, n.lineno))
    return defs


def counter_in_advance(w, cur):
    """The cursor advance (cursor = cursor[E:]) must not depend on a counter that is carried from one
    iteration to the next: the stride would grow with the position of the element in the list."""
    body = ast.Module(body=w.body, type_ignores=[])
    counters = {n.target.id for n in ast.walk(body) if isinstance(n, ast.AugAssign) and isinstance(n.target, ast.Name)
                and isinstance(n.value, ast.Constant) and isinstance(n.value.value, int)}
    # only counters that are not re-initialised inside the loop body
    for n in ast.walk(body):
        if isinstance(n, ast.Assign):
            for t in n.targets:
                for x in ast.walk(t):
                    if isinstance(x, ast.Name) and isinstance(x.ctx, ast.Store):
                        counters.discard(x.id)
        if isinstance(n, (ast.For, ast.comprehension)):
            for x in ast.walk(n.target):
                if isinstance(x, ast.Name):
                    counters.discard(x.id)
    for st in ast.walk(body):
        if isinstance(st, ast.Assign) and isinstance(st.value, ast.Subscript) and \
                isinstance(st.value.slice, ast.Slice) and src_of(st.targets[0]) in cur and \
                src_of(st.value.value) == src_of(st.targets[0]) and st.value.slice.lower is not None:
            used = {x.id for x in ast.walk(st.value.slice.lower) if isinstance(x, ast.Name)} & counters
            if used:
                return ('the cursor advance %s depends on the counter %s, which grows from one iteration to the next: '
                        'the stride is not the size of the element just read, later elements are skipped'
                        % (src_of(st), sorted(used)[0]))
    return None


def append_before_fill(w):
    """An element must be complete when it is appended to the result list: filling it afterwards lets an
    early `continue` leave a partial element behind."""
    body = ast.Module(body=w.body, type_ignores=[])
    for i, st in enumerate(w.body):
        if isinstance(st, ast.Expr) and isinstance(st.value, ast.Call) and isinstance(st.value.func, ast.Attribute) \
                and st.value.func.attr == 'append' and len(st.value.args) == 1 and isinstance(st.value.args[0], ast.Name):
            elem = st.value.args[0].id
            later = ast.Module(body=w.body[i + 1:], type_ignores=[])
            filled = any(isinstance(x, ast.Assign) and any(
                isinstance(t, ast.Subscript) and isinstance(t.value, ast.Name) and t.value.id == elem for t in x.targets)
                for x in ast.walk(later))
            leaves = any(isinstance(x, ast.Continue) for x in ast.walk(later))
            if filled and leaves:
                return ('%s is appended to %s at line %d and filled in afterwards, with a `continue` in between: an '
                        'element the decoder does not handle leaves a partial entry in the result, and what the '
                        'neighbours decode to (nlri[0]) changes' % (elem, src_of(st.value.func.value), st.lineno))
    return None


def loop_threshold_problem(w, cur):
    """`while len(cursor) > K` / `>= K` must not stop while a whole element (the octets every iteration consumes
    at least) is still in the buffer."""
    body = ast.Module(body=w.body, type_ignores=[])
    minadv = None
    for st in ast.walk(body):
        if isinstance(st, ast.Assign) and isinstance(st.value, ast.Subscript) and \
                isinstance(st.value.slice, ast.Slice) and st.value.slice.upper is None and \
                st.value.slice.lower is not None and src_of(st.targets[0]) in cur and \
                src_of(st.value.value) == src_of(st.targets[0]):
            lb = _lower_bound(st.value.slice.lower)
            minadv = lb if minadv is None else min(minadv, lb)
    t = w.test
    if minadv and isinstance(t, ast.Compare) and len(t.ops) == 1 and isinstance(t.left, ast.Call) and \
            src_of(t.left.func) == 'len' and isinstance(t.comparators[0], ast.Constant) and \
            isinstance(t.comparators[0].value, int) and isinstance(t.ops[0], (ast.Gt, ast.GtE)):
        k = t.comparators[0].value + (1 if isinstance(t.ops[0], ast.Gt) else 0)
        if k > minadv:
            return ('the loop stops when fewer than %d octets remain (%s) but an element can be as short as %d octets: a '
                    'minimal last element is dropped, yet decoded when something follows it' % (k, src_of(t), minadv))
    return None


def _enclosing_ifs(loop, node):
    """If statements of the loop body that enclose `node`."""
    out = []

    def walk(stmts, chain):
        for st in stmts:
            if st is node or any(x is node for x in ast.walk(st)):
                if st is node:
                    out.extend(chain)
                    return True
                nxt = chain + [st] if isinstance(st, ast.If) else chain
                for fld in ('body', 'orelse', 'finalbody'):
                    blk = getattr(st, fld, None)
                    if isinstance(blk, list) and walk(blk, nxt):
                        return True
                for h in getattr(st, 'handlers', []) or []:
                    if walk(h.body, nxt):
                        return True
        return False
    walk(loop.body, [])
    return out


def _lower_bound(e):
    """Constant lower bound of a non-negative offset expression (names are lengths >= 0)."""
    if isinstance(e, ast.Constant) and isinstance(e.value, int):
        return e.value
    if isinstance(e, ast.BinOp) and isinstance(e.op, ast.Add):
        return _lower_bound(e.left) + _lower_bound(e.right)
    return 0


def decoder_loops(prog):
    for f in prog.all_functions():
        if not f.module.name.startswith('yabgp.message'):
            continue
        for w in ast.walk(f.node):
            if isinstance(w, ast.While):
                yield f, w


def ord_int_sites(prog, prefix='yabgp.message'):
    """ord(<bytes>[<int index>]) outside the dead `else` arm of an isinstance(x[i], int) test:
    under Python 3 indexing bytes yields an int and ord() raises TypeError on every input."""
    out = []
    for f in prog.all_functions():
        if not f.module.name.startswith(prefix):
            continue
        par = {}
        for n in ast.walk(f.node):
            for c in ast.iter_child_nodes(n):
                par[c] = n
        for n in ast.walk(f.node):
            if isinstance(n, ast.Call) and isinstance(n.func, ast.Name) and n.func.id == 'ord' and n.args:
                a = n.args[0]
                if not (isinstance(a, ast.Subscript) and not isinstance(a.slice, ast.Slice)):
                    continue
                idx = a.slice
                if isinstance(idx, ast.UnaryOp) and isinstance(idx.operand, ast.Constant):
                    pass
                elif not isinstance(idx, (ast.Constant, ast.Name, ast.BinOp)):
                    continue
                # dead arm of the py2/py3 idiom?
                dead = False
                cur = n
                while cur in par:
                    p = par[cur]
                    if isinstance(p, ast.If):
                        tt = common.unalias(f.node, p.test)
                        if 'isinstance(' in tt and ', int)' in tt and \
                                any(cur is x or any(y is cur for y in ast.walk(x)) for x in p.orelse):
                            dead = True
                    if isinstance(p, ast.ListComp):
                        # [ord(i) for i in tmp]: i is a loop variable, not an index into bytes
                        pass
                    cur = p
                if isinstance(a.value, ast.Name) and any(
                        isinstance(g, ast.comprehension) and isinstance(g.target, ast.Name)
                        for g in ast.walk(f.node) if False):
                    pass
                if not dead:
                    out.append((f, n))
    return out


def capability_overwrites(prog):
    """Capability branches of Open.parse that store a *list* under a key and (re)create the list
    unconditionally: a second capability TLV of the same code then overwrites the first.
    -> list of (key text, lineno)"""
    f = prog.func('yabgp.message.open.Open.parse')
    out = []
    par = {}
    for n in ast.walk(f.node):
        for c in ast.iter_child_nodes(n):
            par[c] = n
    # keys that receive .append(...) somewhere = list-valued capabilities
    listkeys = set()
    for n in ast.walk(f.node):
        if isinstance(n, ast.Call) and isinstance(n.func, ast.Attribute) and n.func.attr == 'append' and \
                isinstance(n.func.value, ast.Subscript) and src_of(n.func.value.value) == 'self.capa_dict':
            listkeys.add(src_of(n.func.value.slice))
    for n in ast.walk(f.node):
        if isinstance(n, ast.Assign) and isinstance(n.targets[0], ast.Subscript) and \
                src_of(n.targets[0].value) == 'self.capa_dict':
            k = src_of(n.targets[0].slice)
            is_list = isinstance(n.value, ast.List) or k in listkeys or isinstance(n.value, ast.Name)
            if not is_list or isinstance(n.value, ast.Constant):
                continue
            if not (isinstance(n.value, ast.List) or isinstance(n.value, ast.Name)):
                continue
            guarded = False
            cur = n
            while cur in par:
                p = par[cur]
                if isinstance(p, ast.If) and ('%s not in self.capa_dict' % k) in src_of(p.test) and cur in p.body:
                    guarded = True
                cur = p
            if not guarded:
                out.append((k, n.lineno))
    return f, out


def check(prog, rep, tier):
    rep.rule('R15.f', 'OPEN capabilities are accumulated: a list-valued capability entry is created only when '
                      'absent, so several capability TLVs of one code (RFC 5492 allows that) add up')
    rep.rule('R15.a', 'window discipline: inside a list-decoder loop no element decoder is handed an unbounded '
                      'suffix of the cursor when the element\'s extent is already known from its own length field')
    rep.rule('R15.b', 'no whole-buffer predicate: inside a list-decoder loop the cursor as a whole is never '
                      'compared with a constant')
    rep.rule('R15.c', 'no loop-carried state: apart from the cursor and accumulators no variable written in one '
                      'iteration of a list-decoder loop is read in the next')
    rep.rule('R15.d', 'attribute independence: in parse_attributes no type branch reads a variable another branch '
                      'writes, except the BGP-LS protocol id, whose consumer is deferred until after the loop')
    rep.rule('R15.e', 'element decoders are total on well-formed elements: no ord() of an integer-indexed bytes '
                      'value on a live (Python 3) path')
    rep.rule('R15.h', 'element decoders are total on well-formed elements (tables): every constant key the decoders look up in a '
                      'table of yabgp.common.constants is in that table (a derived table that lost an entry turns one '
                      'element kind into a KeyError, which truncates the whole list)')
    rep.rule('R15.g', 'no hidden sharing between elements: a memo table handed into an element decoder (tested with `in` / .get '
                      'and filled in the same loop) is keyed by every parameter of the decoder that the skipped code reads')
    common.const_key_lookups(prog, rep, 'R15.h', lambda fn: fn.module.name.startswith('yabgp.message'), 10)
    element_memo_keys(prog, rep)
    rep.assumptions += ['equality of decode(a||b) and decode(a)+decode(b) on concrete pools is not decided']
    nloops = 0
    for f, w in decoder_loops(prog):
        nloops += 1
        cur = cursor_names(w)
        body = ast.Module(body=w.body, type_ignores=[])
        idx = [x for x in ast.walk(f.node) if isinstance(x, ast.While)]
        lk = 'loop:%s#%d' % (f.qualname, sorted(idx, key=lambda n: n.lineno).index(w))
        # advance statements: cursor = cursor[EXPR:]
        ext_names = {}
        for st in ast.walk(body):
            if isinstance(st, ast.Assign) and isinstance(st.value, ast.Subscript) and \
                    isinstance(st.value.slice, ast.Slice) and st.value.slice.upper is None and \
                    src_of(st.targets[0]) in cur and src_of(st.value.value) in cur and st.value.slice.lower is not None:
                for n in ast.walk(st.value.slice.lower):
                    if isinstance(n, ast.Name):
                        ext_names[n.id] = st.lineno
        # first assignment line of every extent name in the body
        first_def = {}
        for st in ast.walk(body):
            if isinstance(st, (ast.Assign, ast.AugAssign)):
                tg = st.targets if isinstance(st, ast.Assign) else [st.target]
                for t in tg:
                    for n in ast.walk(t):
                        if isinstance(n, ast.Name) and n.id in ext_names:
                            first_def.setdefault(n.id, st.lineno)
        # ---- R15.a
        bad = None
        aliases = set()
        for st in ast.walk(body):
            if isinstance(st, ast.Assign) and isinstance(st.targets[0], ast.Name) and \
                    st.targets[0].id not in cur and isinstance(st.value, ast.Subscript) and \
                    isinstance(st.value.slice, ast.Slice) and st.value.slice.upper is None and \
                    src_of(st.value.value) in cur:
                aliases.add(st.targets[0].id)
        for c in ast.walk(body):
            if not isinstance(c, ast.Call) or src_of(c.func) in SAFE_CALLS:
                continue
            for a in list(c.args) + [k.value for k in c.keywords]:
                for s in ast.walk(a):
                    if (isinstance(s, ast.Subscript) and isinstance(s.slice, ast.Slice) and s.slice.upper is None
                            and src_of(s.value) in cur) or (isinstance(s, ast.Name) and s.id in aliases
                                                            and s is a):
                        known = [n for n, ln in first_def.items() if ln < c.lineno]
                        # the result of this very call feeds the advance -> extent not known before
                        feeds = False
                        via = set()
                        for st in ast.walk(body):
                            if isinstance(st, ast.Assign) and st.value is c:
                                for t in ast.walk(st.targets[0]):
                                    if isinstance(t, ast.Name):
                                        via.add(t.id)
                                        if t.id in ext_names:
                                            feeds = True
                        for st in ast.walk(body):
                            if isinstance(st, (ast.Assign, ast.AugAssign)) and st.lineno > c.lineno:
                                tg = st.targets[0] if isinstance(st, ast.Assign) else st.target
                                if isinstance(tg, ast.Name) and tg.id in ext_names and \
                                        any(isinstance(x, ast.Name) and x.id in via for x in ast.walk(st.value)):
                                    feeds = True
                        if known and not feeds:
                            bad = (c, known)
        if bad:
            c, known = bad
            rep.bad('R15.a', lk, file=f.file, line=c.lineno, func=f.qualname,
                    found='%s receives an unbounded suffix of the cursor although the element extent (%s) is '
                          'already known' % (src_of(c)[:80], ', '.join(sorted(known))),
                    expected='a window bounded by the element length', key=lk)
        else:
            rep.ok('R15.a', lk, file=f.file, line=w.lineno, nontrivial=bool(ext_names))
        # ---- R15.b
        bad = None
        for c in ast.walk(body):
            if isinstance(c, ast.Compare) and len(c.ops) == 1 and isinstance(c.ops[0], (ast.Eq, ast.NotEq)):
                sides = [c.left, c.comparators[0]]
                if any(src_of(x) in cur for x in sides) and any(
                        isinstance(x, ast.Constant) and isinstance(x.value, (bytes, str)) and x.value not in (b'', '')
                        for x in sides):
                    bad = c
            # other looks at the remaining buffer as a whole: content tests and reads counted from its end
            if isinstance(c, ast.Call) and isinstance(c.func, ast.Attribute) and src_of(c.func.value) in cur and \
                    c.func.attr in ('strip', 'lstrip', 'rstrip', 'startswith', 'endswith', 'count', 'find', 'rfind',
                                    'index', 'replace', 'split'):
                bad = bad or c
            if isinstance(c, ast.Subscript) and src_of(c.value) in cur and isinstance(c.ctx, ast.Load):
                sl = c.slice
                neg = lambda e: isinstance(e, ast.UnaryOp) and isinstance(e.op, ast.USub) and isinstance(e.operand, ast.Constant)
                if neg(sl) or (isinstance(sl, ast.Slice) and sl.lower is not None and neg(sl.lower)):
                    bad = bad or c
        if bad is not None:
            bkey = lk if isinstance(bad, ast.Compare) and src_of(bad).replace(' ', '') in (
                "nlri_data==b'\\x00\\x00'", "b'\\x00\\x00'==nlri_data") else '%s:%s' % (lk, src_of(bad)[:50])
            rep.bad('R15.b', bkey, file=f.file, line=bad.lineno, func=f.qualname,
                    found='the remaining buffer as a whole decides or is read from its end: %s - what follows an element '
                          'changes how the element is decoded' % src_of(bad),
                    expected='decisions depend on the current element only', key=bkey)
        else:
            rep.ok('R15.b', lk, file=f.file, line=w.lineno, nontrivial=False)
        # ---- R15.c
        if f.qualname == UPD + '.parse_attributes':
            thr = loop_threshold_problem(w, cur)
            if thr:
                rep.bad('R15.c', lk, file=f.file, line=w.lineno, func=f.qualname, found=thr,
                        expected='continue while a whole element remains', key=lk)
            continue            # the rest is judged by R15.d
        stores = {}
        loads = {}
        aug_only = {}
        for n in ast.walk(body):
            if isinstance(n, ast.Name):
                pos = (n.lineno, n.col_offset)
                if isinstance(n.ctx, ast.Store):
                    stores.setdefault(n.id, []).append(pos)
                elif isinstance(n.ctx, ast.Load):
                    loads.setdefault(n.id, []).append(pos)
        for n in ast.walk(body):
            if isinstance(n, ast.AugAssign) and isinstance(n.target, ast.Name):
                aug_only.setdefault(n.target.id, 0)
                aug_only[n.target.id] += 1
        comp_vars = set()
        for n in ast.walk(body):
            if isinstance(n, ast.comprehension):
                comp_vars |= set(x.id for x in ast.walk(n.target) if isinstance(x, ast.Name))
        carried = []
        for name, sp in stores.items():
            if name in comp_vars:
                continue
            if name in cur:
                continue
            if aug_only.get(name, 0) == len(sp):
                continue        # pure accumulator (x += ...)
            lp = loads.get(name, [])
            if lp and min(lp) < min(sp):
                # assigned before the loop? then the early load reads the previous iteration's value
                carried.append(name)
        # list accumulators (x = [] before the loop, only grown inside it) are write-only in the loop: reading
        # back what earlier elements produced makes the result depend on the neighbours
        acc = set()
        for st in ast.walk(f.node):
            if isinstance(st, ast.Assign) and isinstance(st.value, ast.List) and not st.value.elts and \
                    st.lineno < w.lineno and isinstance(st.targets[0], ast.Name) and st.targets[0].id not in stores:
                acc.add(st.targets[0].id)
        acc_reads = []
        bpar = {}
        for n in ast.walk(body):
            for c in ast.iter_child_nodes(n):
                bpar[c] = n
        for n in ast.walk(body):
            if isinstance(n, ast.Name) and n.id in acc and isinstance(n.ctx, ast.Load):
                p = bpar.get(n)
                if isinstance(p, ast.Attribute) and p.attr in ('append', 'extend', 'insert') and \
                        isinstance(bpar.get(p), ast.Call) and bpar[p].func is p:
                    continue
                inspected = isinstance(p, (ast.Subscript, ast.BoolOp, ast.Compare, ast.UnaryOp, ast.If, ast.IfExp,
                                           ast.While)) or \
                    (isinstance(p, ast.Call) and src_of(p.func) in ('len', 'bool', 'any', 'all') and n in p.args) or \
                    (isinstance(p, ast.Attribute) and p.attr in ('pop', 'index', 'count', 'remove'))
                if inspected:
                    acc_reads.append((n.id, n.lineno))
        if acc_reads:
            rep.bad('R15.c', lk, file=f.file, line=acc_reads[0][1], func=f.qualname,
                    found='the result list %r is read back inside the loop (line %d): what an element decodes to '
                          'depends on the elements before it' % acc_reads[0],
                    expected='the result list is only appended to', key=lk)
            continue
        thr = loop_threshold_problem(w, cur) or counter_in_advance(w, cur) or append_before_fill(w)
        if thr:
            rep.bad('R15.c', lk, file=f.file, line=w.lineno, func=f.qualname, found=thr,
                    expected='continue while a whole element remains; stride and elements independent of the position '
                             'in the list', key=lk)
            continue
        # path-sensitive version: a name stored somewhere in the loop body that can be read on a path of one
        # iteration before it is assigned in that iteration carries a value over from the previous element
        reads = []
        maybe_unassigned_reads(w.body, set(), reads)
        stored_plain = {nm for nm, sp in stores.items() if aug_only.get(nm, 0) != len(sp)}
        for nm, ln in reads:
            if nm in stored_plain and nm not in cur and nm not in comp_vars and nm not in carried and nm not in acc:
                # x = x + ... / x = x[...]: self-referential rebuild of an accumulator or cursor alias
                selfref = all(any(isinstance(y, ast.Name) and y.id == nm for y in ast.walk(a_.value))
                              for a_ in ast.walk(body) if isinstance(a_, ast.Assign)
                              and any(isinstance(t_, ast.Name) and t_.id == nm for t_ in a_.targets))
                # assigned only under loop-invariant guards (a parameter, a class constant): every iteration takes
                # the same branches, so the read can never see a value of an earlier iteration
                invariant = True
                for a_ in ast.walk(body):
                    if isinstance(a_, ast.Assign) and any(isinstance(t_, ast.Name) and t_.id == nm for t_ in a_.targets):
                        for anc in _enclosing_ifs(w, a_):
                            if any(isinstance(y, ast.Name) and y.id in stores for y in ast.walk(anc.test)):
                                invariant = False
                if not selfref and not invariant:
                    carried.append(nm)
        # loop variables of inner for-loops are stores that precede their loads
        if carried:
            rep.bad('R15.c', lk, file=f.file, line=w.lineno, func=f.qualname,
                    found='variable(s) %s are read before they are written in the loop body: state is carried '
                          'from one element to the next' % sorted(carried),
                    expected='only the cursor and accumulators survive an iteration', key=lk)
        else:
            rep.ok('R15.c', lk, file=f.file, line=w.lineno, nontrivial=False)
    rep.floor('R15.a', 'decoder loops', nloops, 41)

    # ---------------------------------------------------------------- R15.d
    pa = prog.func(UPD + '.parse_attributes')
    branches = []
    for n in ast.walk(pa.node):
        if isinstance(n, ast.If) and isinstance(n.test, ast.Compare) and src_of(n.test.left) == 'type_code':
            code = prog.try_fold(n.test.comparators[0], pa.module, pa.cls)
            w, r = set(), set()
            for x in ast.walk(ast.Module(body=n.body, type_ignores=[])):
                if isinstance(x, ast.Name):
                    (w if isinstance(x.ctx, ast.Store) else r).add(x.id)
            branches.append((code, n, w, r))
    shared_ok = {'decode_value', 'attributes', 'attr_value', 'asn4', 'afi_add_path', 'bgp_cons', 'type_code'}
    probs = []
    # session parameters are shared read-only: a branch that rebinds one changes how every later attribute of the
    # same UPDATE is decoded
    for ci, ni, wi, ri in branches:
        for name in sorted(wi & set(pa.params)):
            probs.append((ni, 'the branch for type %s rebinds the parameter %s: attributes that follow it in the '
                              'same UPDATE are decoded with the new value, attributes before it with the old one'
                          % (ci, name)))
    for ci, ni, wi, ri in branches:
        for cj, nj, wj, rj in branches:
            if ci == cj:
                continue
            leak = (ri & wj) - shared_ok - wi
            for name in sorted(leak):
                if name == 'bgpls_pro_id':
                    continue
                probs.append((ni, 'the branch for type %s reads %s, which the branch for type %s writes' % (ci, name, cj)))
    # the protocol id remembered for the link-state attribute is only overwritten by an MP_REACH that carries one
    for n in ast.walk(pa.node):
        if isinstance(n, ast.Assign) and any(isinstance(t, ast.Name) and t.id == 'bgpls_pro_id' for t in n.targets):
            if isinstance(n.value, ast.Constant) and n.value.value is None:
                continue        # initialisation
            cs = common.conds_at(pa.node, n)
            if not any(v and 'protocol_id' in src_of(t) for t, v in cs):
                probs.append((n, 'bgpls_pro_id is assigned %s without a test that the NLRI carries a protocol id: a '
                                 'later MP_REACH_NLRI of another family resets it, and the link-state attribute is then '
                                 'decoded differently depending on the attribute order' % src_of(n.value)))
    # the deferral of the BGP-LS attribute
    txt = src_of(pa.node)
    deferral = 'bgpls_attr = attr_value' in txt and 'if bgpls_attr' in txt and \
        txt.count('LinkState.unpack(bgpls_pro_id=bgpls_pro_id') >= 2
    if not deferral:
        probs.append((pa.node, 'the BGP-LS attribute is decoded with the protocol id of an earlier attribute but '
                               'is not deferred when MP_REACH_NLRI comes later'))
    if probs:
        n, why = probs[0]
        rep.bad('R15.d', 'parse_attributes', file=pa.file, line=n.lineno, func=pa.qualname, found=why,
                expected='branches are independent of attribute order', key='parse_attributes')
    else:
        rep.ok('R15.d', 'parse_attributes', file=pa.file, line=pa.node.lineno,
               found='%d type branches, only bgpls_pro_id crosses (deferred consumer present)' % len(branches))
    rep.floor('R15.d', 'type branches', len(branches), 18)
    # the attribute map is keyed by type code
    if 'attributes[type_code] = decode_value' in txt:
        rep.ok('R15.d', 'keyed-by-type', file=pa.file, line=pa.node.lineno)
    else:
        rep.bad('R15.d', 'keyed-by-type', file=pa.file, line=pa.node.lineno, func=pa.qualname,
                found='decoded attributes are not stored under their type code', key='keyed-by-type')

    # ---------------------------------------------------------------- R15.f
    f, outs = capability_overwrites(prog)
    for k, line in outs:
        key = 'cap-overwrite:%s' % k
        rep.bad('R15.f', key, file=f.file, line=line, func=f.qualname,
                found='capa_dict[%s] is (re)created for every capability TLV of that code: a second TLV '
                      'overwrites what the first one contributed' % k,
                expected='create the list only if the key is absent', key=key)
    if not outs:
        rep.ok('R15.f', 'cap-accumulate', file=f.file, line=f.node.lineno)
    elif not any(i.rule == 'R15.f' and i.verdict == 'ok' for i in rep.instances):
        rep.ok('R15.f', 'cap-accumulate:checked', file=f.file, line=f.node.lineno, nontrivial=False,
               found='%d list-valued capability stores examined' % len(outs))

    # ---------------------------------------------------------------- R15.e
    sites = ord_int_sites(prog)
    for f, n in sites:
        key = 'ord-int:%s:%s' % (f.qualname, norm_stmt(n))
        rep.bad('R15.e', key, file=f.file, line=n.lineno, func=f.qualname,
                found='%s: indexing bytes yields an int under Python 3, ord() raises TypeError for every input' % src_of(n),
                expected='ord(x[i:i+1]) or x[i]', key=key)
    if not sites:
        rep.ok('R15.e', 'ord-int', found='no live ord(bytes[int]) site')
    # positive control
    t = ast.parse("def f(v):\n    return ord(v[0])\n")
    if not any(isinstance(n, ast.Call) and getattr(n.func, 'id', None) == 'ord' for n in ast.walk(t)):
        raise AnalysisError('ord scanner self-check failed')



def element_memo_keys(prog, rep):
    nfun = 0
    bad = []
    for f in prog.all_functions():
        if not f.module.name.startswith('yabgp.message'):
            continue
        nfun += 1
        params = [p for p in f.params if p not in ('cls', 'self')]
        for p in params:
            stores = [n for n in ast.walk(f.node) if isinstance(n, ast.Assign) and isinstance(n.targets[0], ast.Subscript)
                      and src_of(n.targets[0].value) == p]
            tests = [n for n in ast.walk(f.node) if isinstance(n, ast.Compare) and isinstance(n.ops[0], (ast.In, ast.NotIn))
                     and src_of(n.comparators[0]) == p]
            gets = [n for n in ast.walk(f.node) if isinstance(n, ast.Call) and isinstance(n.func, ast.Attribute)
                    and n.func.attr == 'get' and src_of(n.func.value) == p]
            if not stores or not (tests or gets):
                continue
            # p is a memo handed in by the caller; what is its key made of?
            keyexpr = stores[0].targets[0].slice
            keytxt = common.unalias(f.node, keyexpr)
            keynames = set(x.id for x in ast.walk(ast.parse(keytxt, mode='eval')) if isinstance(x, ast.Name))
            loops = [w for w in ast.walk(f.node) if isinstance(w, (ast.While, ast.For))
                     and any(x is stores[0] for x in ast.walk(w))]
            region = loops[0] if loops else f.node
            read = set(x.id for x in ast.walk(region) if isinstance(x, ast.Name) and isinstance(x.ctx, ast.Load))
            missing = [q for q in params if q != p and q in read and q not in keynames
                       and not any(isinstance(a, ast.Assign) and any(isinstance(t, ast.Name) and t.id == q for t in a.targets)
                                   for a in ast.walk(region))]
            # the data parameter the loop consumes is represented in the key by the slices taken from it
            missing = [q for q in missing if not any(
                isinstance(a, ast.Assign) and isinstance(a.value, ast.Subscript) and src_of(a.value.value) == q
                for a in ast.walk(f.node))]
            if missing:
                bad.append((f, stores[0], p, missing, keytxt))
    for f, st, p, missing, keytxt in bad:
        key = 'memo-key:%s:%s' % (f.qualname, p)
        rep.bad('R15.g', key, file=f.file, line=st.lineno, func=f.qualname,
                found='the memo %s is keyed by %s, but the code it short-cuts also depends on %s: an element decoded '
                      'earlier in the same list decides how a later one is decoded' % (p, keytxt, ', '.join(missing)),
                expected='every input of the skipped code in the key', key=key)
    if not bad:
        rep.ok('R15.g', 'element-memos', found='%d decoder functions, no memo parameter with an incomplete key' % nfun)
