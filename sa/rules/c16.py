"""C16 - REST control surface is authenticated and state-gated; sends are faithful (structural part)."""
import ast

from ..front import AnalysisError, src_of
from . import common

V1 = 'yabgp.api.v1'
UTILS = 'yabgp.api.utils'


def routes(prog):
    """(FuncInfo, url rule, decorator texts in order outermost-first)."""
    m = prog.module(V1)
    if m is None:
        raise AnalysisError('yabgp.api.v1 vanished')
    out = []
    for f in m.functions.values():
        rule = None
        for d in f.decorators:
            if isinstance(d, ast.Call) and src_of(d.func).endswith('.route') and d.args and \
                    isinstance(d.args[0], ast.Constant):
                rule = d.args[0].value
        if rule is not None:
            out.append((f, rule, [src_of(d.func) if isinstance(d, ast.Call) else src_of(d) for d in f.decorators]))
    return out


def sends_reachable(prog, f, depth=0, seen=None):
    """Does the function reach protocol.send_* / transport.write through yabgp.api.utils?"""
    seen = seen or set()
    if f.qualname in seen or depth > 4:
        return False
    seen.add(f.qualname)
    for n in ast.walk(f.node):
        if isinstance(n, ast.Call) and isinstance(n.func, ast.Attribute):
            a = n.func.attr
            if (a.startswith('send_') or a == 'write') and 'protocol' in src_of(n.func.value):
                return True
            if src_of(n.func.value) in ('api_utils',):
                g = prog.module(UTILS).functions.get(a)
                if g is not None and sends_reachable(prog, g, depth + 1, seen):
                    return True
    return False


def bin_update_unfiltered(prog, rep):
    f = prog.func('yabgp.api.v1.send_bin_update')
    bad = None
    for n in ast.walk(f.node):
        if isinstance(n, ast.Call) and src_of(n.func).startswith('re.') and any('bin' in src_of(a) for a in n.args):
            bad = bad or n
        if isinstance(n, ast.Call) and isinstance(n.func, ast.Name) and n.func.id == 'filter' and \
                any('bin' in src_of(a) for a in n.args):
            bad = bad or n
        if isinstance(n, (ast.ListComp, ast.GeneratorExp)) and n.generators[0].ifs and \
                'bin' in src_of(n.generators[0].iter):
            bad = bad or n
    key = 'bin-update-unfiltered'
    if bad is not None:
        rep.bad('R16.e', key, file=f.file, line=bad.lineno, func=f.qualname,
                found='the posted hex text goes through %s: characters that are not hex are dropped and the remaining '
                      'digits re-pair, so a damaged request is sent (and counted) as a different message instead of being '
                      'refused by a2b_hex' % src_of(bad)[:70], expected='only blanks removed; anything else refused', key=key)
    else:
        rep.ok('R16.e', key, file=f.file, line=f.node.lineno)


def check(prog, rep, tier):
    rep.rule('R16.a', 'every view registered under /peer/ carries auth.login_required directly inside '
                      'blueprint.route; the password callback returns the configured password only for the '
                      'configured user name')
    rep.rule('R16.b', 'every view from which a BGP send is reachable carries makesure_peer_establish inside '
                      'login_required; the gate calls the view only when the FSM state is Established')
    rep.rule('R16.d', 'what goes out is encoded as the session negotiated: the OPEN decoder stores the key four_bytes_as only '
                      'with the value True, because the protocol enables 4-octet AS encoding on its presence (shared '
                      'with C05 R05.e)')
    rep.rule('R16.e', 'send_bin_update writes what was posted: the hex text of the human format is not passed through a filter '
                      '(re.findall / re.sub / a character comprehension) that drops what is not hex instead of refusing it')
    rep.rule('R16.c', 'faithful send: between the request JSON and protocol.send_update the attribute dictionary is '
                      'only re-keyed, given the default LOCAL_PREF on iBGP and the recombined extended '
                      'communities; NLRI and withdraw pass unchanged; success is reported only from the send result')
    from .c05 import four_octet_flag_rule
    four_octet_flag_rule(prog, rep, 'R16.d')
    bin_update_unfiltered(prog, rep)
    rep.assumptions += ['Flask routing/decorator semantics and Flask-HTTPAuth get_password semantics (trusted base); Flask-HTTPAuth does not authenticate OPTIONS requests',
                        'TOCTOU between the establishment gate and the send is not decided']
    m = prog.module(V1)
    rs = routes(prog)
    peer = [r for r in rs if r[1].startswith('/peer/')]
    rep.floor('R16.a', '/peer/ routes', len(peer), 11)
    for f, rule, decs in peer:
        key = 'route:%s' % rule
        probs = []
        if not decs or not decs[0].endswith('.route'):
            probs.append('blueprint.route is not the outermost decorator')
        if len(decs) < 2 or decs[1] != 'auth.login_required':
            probs.append('auth.login_required is not directly inside blueprint.route (decorators: %s)' % decs)
        # Flask-HTTPAuth lets OPTIONS requests through without credentials (CORS pre-flight): harmless while
        # Flask answers OPTIONS itself, a bypass once the route hands OPTIONS to the view
        for d in f.decorators:
            if isinstance(d, ast.Call) and src_of(d.func).endswith('.route'):
                for k in d.keywords:
                    if k.arg == 'methods':
                        ms = prog.try_fold(k.value, f.module, None)
                        if ms is None:
                            probs.append('methods=%s is not a constant list' % src_of(k.value))
                        elif any(str(x).upper() == 'OPTIONS' for x in ms):
                            probs.append('the route hands OPTIONS requests to the view, and login_required does not '
                                         'authenticate OPTIONS: the view runs without credentials')
                    if k.arg == 'provide_automatic_options':
                        probs.append('provide_automatic_options is overridden')
        if probs:
            rep.bad('R16.a', key, file=f.file, line=f.node.lineno, func=f.qualname, found='; '.join(probs),
                    expected='@blueprint.route, @auth.login_required, ...', key=key)
        else:
            rep.ok('R16.a', key, file=f.file, line=f.node.lineno, found=decs)
    # auth object and password callback
    a = m.assigns.get('auth')
    if a is not None and src_of(a) == 'HTTPBasicAuth()':
        rep.ok('R16.a', 'auth-object', file=m.relpath, line=m.assign_lines.get('auth'))
    else:
        rep.bad('R16.a', 'auth-object', file=m.relpath, found='auth = %s' % (src_of(a) if a is not None else None),
                expected='HTTPBasicAuth()', key='auth-object')
    cb = [f for f in m.functions.values() if any(src_of(d) == 'auth.get_password' for d in f.decorators)]
    if len(cb) != 1:
        rep.bad('R16.a', 'password-callback', file=m.relpath, found='%d get_password callbacks' % len(cb),
                key='password-callback')
    else:
        f = cb[0]
        user = f.params[0] if f.params else None
        good = False
        rets = [n for n in ast.walk(f.node) if isinstance(n, ast.Return)]
        pw_rets = [r for r in rets if r.value is not None and 'password' in src_of(r.value)]
        other = [r for r in rets if r not in pw_rets]
        guarded = []
        for n in ast.walk(f.node):
            if isinstance(n, ast.If) and isinstance(n.test, ast.Compare) and isinstance(n.test.ops[0], ast.Eq) and \
                    {src_of(n.test.left), src_of(n.test.comparators[0])} == {user, 'cfg.CONF.rest.username'}:
                for r in pw_rets:
                    if any(r is x for b in n.body for x in ast.walk(b)):
                        guarded.append(r)
        good = bool(pw_rets) and len(guarded) == len(pw_rets) and \
            all(src_of(r.value) == 'cfg.CONF.rest.password' for r in pw_rets) and \
            all(r.value is None or (isinstance(r.value, ast.Constant) and r.value.value is None) for r in other)
        if good:
            rep.ok('R16.a', 'password-callback', file=f.file, line=f.node.lineno)
        else:
            rep.bad('R16.a', 'password-callback', file=f.file, line=f.node.lineno, func=f.qualname,
                    found='the password is returned on a path not guarded by username == cfg.CONF.rest.username '
                          '(or something else than cfg.CONF.rest.password is returned)', key='password-callback')

    # ---------------------------------------------------------------- R16.b
    nsend = 0
    for f, rule, decs in rs:
        if not sends_reachable(prog, f):
            continue
        nsend += 1
        key = 'gate:%s' % rule
        if 'api_utils.makesure_peer_establish' in decs and 'auth.login_required' in decs and \
                decs.index('api_utils.makesure_peer_establish') > decs.index('auth.login_required'):
            rep.ok('R16.b', key, file=f.file, line=f.node.lineno)
        else:
            rep.bad('R16.b', key, file=f.file, line=f.node.lineno, func=f.qualname,
                    found='a BGP send is reachable but makesure_peer_establish is not applied inside login_required '
                          '(decorators: %s)' % decs, key=key)
    rep.floor('R16.b', 'sending views', nsend, 3)
    u = prog.module(UTILS)
    g = u.functions.get('makesure_peer_establish')
    r = u.functions.get('_ready_to_send_msg')
    if g is None or r is None:
        raise AnalysisError('establishment gate vanished')
    # the gate: f(*args, **kwargs) only on the true branch of _ready_to_send_msg
    probs = []
    calls = [n for n in ast.walk(g.node) if isinstance(n, ast.Call) and isinstance(n.func, ast.Name) and
             n.func.id == g.params[0]]
    if not calls:
        probs.append('the wrapped view is never called')
    inner = [n for n in ast.walk(g.node) if isinstance(n, ast.FunctionDef) and n is not g.node]
    for c in calls:
        scope = next((fn for fn in inner if any(c is x for x in ast.walk(fn))), g.node)
        cs = common.conds_at(scope, c)
        if not common.holds(cs, lambda e: isinstance(e, ast.Call) and src_of(e.func) == '_ready_to_send_msg'):
            probs.append('the wrapped view is called on a path where `_ready_to_send_msg(...)` is not known to hold')
    if probs:
        rep.bad('R16.b', 'gate-shape', file=g.file, line=g.node.lineno, func=g.qualname, found='; '.join(probs),
                key='gate-shape')
    else:
        rep.ok('R16.b', 'gate-shape', file=g.file, line=g.node.lineno)
    def is_estab_test(e):
        t = common.unalias(r.node, e)
        try:
            e2 = ast.parse(t, mode='eval').body
        except SyntaxError:
            return False
        return isinstance(e2, ast.Compare) and len(e2.ops) == 1 and isinstance(e2.ops[0], ast.Eq) and \
            'ST_ESTABLISHED' in t
    okr = False
    rets = [n for n in ast.walk(r.node) if isinstance(n, ast.Return)]
    okr = bool(rets)
    seen_true = False
    for n in rets:
        v = n.value
        if v is None or (isinstance(v, ast.Constant) and not v.value):
            continue
        if isinstance(v, ast.Constant) and v.value is True:
            seen_true = True
            if not common.holds(common.conds_at(r.node, n), is_estab_test):
                okr = False
        elif is_estab_test(v):
            seen_true = True
        else:
            okr = False
    okr = okr and seen_true
    if okr:
        rep.ok('R16.b', 'ready-predicate', file=r.file, line=r.node.lineno)
    else:
        rep.bad('R16.b', 'ready-predicate', file=r.file, line=r.node.lineno, func=r.qualname,
                found='_ready_to_send_msg returns True on a path not guarded by state == ST_ESTABLISHED',
                key='ready-predicate')

    # ---------------------------------------------------------------- R16.c
    v = m.functions.get('send_update_message')
    if v is None:
        raise AnalysisError('send_update_message vanished')
    probs = []
    for name in ('nlri', 'withdraw'):
        st = [n for n in ast.walk(v.node) if isinstance(n, (ast.Assign, ast.AugAssign)) and
              any(isinstance(t, ast.Name) and t.id == name for t in (n.targets if isinstance(n, ast.Assign) else [n.target]))]
        sub = [n for n in ast.walk(v.node) if isinstance(n, (ast.Assign, ast.AugAssign, ast.Delete)) and
               any(isinstance(t, ast.Subscript) and src_of(t.value) == name
                   for t in (n.targets if not isinstance(n, ast.AugAssign) else [n.target]))]
        mut = [n for n in ast.walk(v.node) if isinstance(n, ast.Call) and isinstance(n.func, ast.Attribute) and
               src_of(n.func.value) == name and n.func.attr in ('append', 'extend', 'pop', 'remove', 'insert', 'clear')]
        if len(st) != 1 or "json_request.get('%s')" % name not in src_of(st[0].value) or sub or mut:
            probs.append('%s is modified between the request and the send' % name)
    allowed_attr = []
    for n in ast.walk(v.node):
        if isinstance(n, ast.Assign):
            for t in n.targets:
                if isinstance(t, ast.Name) and t.id == 'attr':
                    allowed_attr.append(src_of(n.value))
                if isinstance(t, ast.Subscript) and src_of(t.value) == 'attr':
                    k = src_of(t.slice)
                    if k == '5':
                        if src_of(n.value) != '100':
                            probs.append('default LOCAL_PREF is %s' % src_of(n.value))
                        par = None
                        for i in ast.walk(v.node):
                            if isinstance(i, ast.If) and any(n is x for b in i.body for x in ast.walk(b)) and \
                                    '5 not in attr' in src_of(i.test) and 'remote_as' in src_of(i.test) and \
                                    'local_as' in src_of(i.test) and '==' in src_of(i.test):
                                par = i
                        if par is None:
                            probs.append('attr[5] is set outside `5 not in attr and remote_as == local_as`')
                    elif k == '16':
                        if src_of(n.value) != 'ext_community':
                            probs.append('attr[16] := %s' % src_of(n.value))
                    else:
                        probs.append('attr[%s] is written' % k)
        if isinstance(n, ast.Call) and isinstance(n.func, ast.Attribute) and src_of(n.func.value) == 'attr' and \
                n.func.attr in ('pop', 'update', 'clear', 'setdefault', 'popitem'):
            probs.append('attr.%s() is called' % n.func.attr)
    for a in allowed_attr:
        if a not in ("json_request.get('attr') or {}", '{int(k): v for k, v in attr.items()}'):
            probs.append('attr := %s' % a)
    sends = [n for n in ast.walk(v.node) if isinstance(n, ast.Call) and src_of(n.func) == 'api_utils.send_update']
    for c in sends:
        if [src_of(a) for a in c.args] != ['peer_ip', 'attr', 'nlri', 'withdraw']:
            probs.append('send_update is called with %s' % [src_of(a) for a in c.args])
    if not sends:
        probs.append('the view never calls api_utils.send_update')
    if probs:
        rep.bad('R16.c', 'send_update_message', file=v.file, line=v.node.lineno, func=v.qualname,
                found='; '.join(probs[:3]), expected='request forwarded unchanged', key='send_update_message')
    else:
        rep.ok('R16.c', 'send_update_message', file=v.file, line=v.node.lineno, found='%d send call(s)' % len(sends))
    # json_to_bin builds the bytes that send/bin_update later puts on the wire: its LOCAL_PREF default has the same
    # guard (membership, so that an explicit 0 is kept)
    jb = m.functions.get('json_to_bin')
    if jb is not None:
        sets5 = [n for n in ast.walk(jb.node) if isinstance(n, ast.Assign) and any(
            isinstance(t, ast.Subscript) and src_of(t.value) == 'attr' and src_of(t.slice) == '5' for t in n.targets)]
        probs = []
        for n in sets5:
            if src_of(n.value) != '100':
                probs.append('default LOCAL_PREF is %s' % src_of(n.value))
            cs = common.conds_at(jb.node, n)
            if not common.holds(cs, lambda e: isinstance(e, ast.Compare) and len(e.ops) == 1 and
                                isinstance(e.ops[0], ast.NotIn) and src_of(e.left) == '5'
                                and src_of(e.comparators[0]) == 'attr'):
                probs.append('attr[5] = 100 is not guarded by `5 not in attr` (conditions: %s): an explicit LOCAL_PREF '
                             'that is falsy (0) is overwritten' % [src_of(t) for t, v_ in cs])
        if probs:
            rep.bad('R16.c', 'json_to_bin:local-pref', file=jb.file, line=jb.node.lineno, func=jb.qualname,
                    found='; '.join(probs[:2]), expected='same guard as send_update_message', key='json_to_bin:local-pref')
        elif sets5:
            rep.ok('R16.c', 'json_to_bin:local-pref', file=jb.file, line=sets5[0].lineno)
    # BGP.send_update: True only when the message Update.construct returned was written; when
    # construction fails nothing is written and the result is falsy
    from ..values import Const, Opaque
    tab = common.get_table(prog, dot_dead=common.env_facts(prog)['dot_dead'], wire=False)
    m = tab.model
    bgp = prog.cls('yabgp.core.protocol.BGP')
    su = bgp.find_method('send_update')
    probs = []
    npaths = 0
    for poid, st in m.setup('Established', 'live'):
        for k, v, s2 in m.run_method(st, poid, 'send_update', [Opaque('request')]):
            npaths += 1
            failed = any(f.startswith('opaque-raise@') and f.endswith('Update.construct') for f in s2.flags)
            writes = [a for a in s2.actions if a.kind == 'call' and a.meth == 'write' and a.target.startswith('transport')]
            ret = v.value if isinstance(v, Const) else v.desc()
            if k == 'raise':
                probs.append('an exception escapes send_update')
            elif failed:
                if writes:
                    probs.append('Update.construct failed but %s is still written to the transport' %
                                 (writes[0].args[0].desc() if writes[0].args else '?'))
                if ret:
                    probs.append('Update.construct failed but send_update returns %r (success)' % (ret,))
            else:
                if ret is True and len(writes) != 1:
                    probs.append('returns True with %d transport writes' % len(writes))
                if writes and 'Update.construct()' not in writes[0].args[0].desc():
                    probs.append('the bytes written are %s, not the result of Update.construct' % writes[0].args[0].desc())
    if npaths == 0:
        rep.undecided('R16.c', 'BGP.send_update', found='no path')
    elif probs:
        rep.bad('R16.c', 'BGP.send_update', file=su.file, line=su.node.lineno, func=su.qualname,
                found='; '.join(sorted(set(probs))[:2]), expected='success only for the constructed message on the wire',
                key='BGP.send_update')
    else:
        rep.ok('R16.c', 'BGP.send_update', file=su.file, line=su.node.lineno, found='%d path(s)' % npaths)
    # BGP.send_route_refresh: whatever capability branch is taken, the message written carries the afi / res / safi
    # that were requested
    from .. import bytelen as BL
    from ..values import BytesV
    sr = bgp.find_method('send_route_refresh')
    probs = []
    nwr = 0
    for poid, st in m.setup('Established', 'live'):
        for k, v, s2 in m.run_method(st, poid, 'send_route_refresh', [Opaque('afi'), Opaque('safi'), Opaque('res')]):
            for a in s2.actions:
                if a.kind == 'call' and a.meth == 'write' and a.target.startswith('transport') and a.args:
                    nwr += 1
                    msg = a.args[0]
                    fl = [p_ for p_ in BL.fields(BL.flatten(msg)) if p_[0] == 'field'] if isinstance(msg, BytesV) else []
                    got = [p_[2].desc() for p_ in fl[-3:]]
                    if got != ['afi', 'res', 'safi']:
                        guards = ' & '.join(('%s' if b else 'not %s') % t for t, b, l, q in s2.path[-3:])
                        probs.append('on the path %s the ROUTE-REFRESH written carries (afi, res, safi) = %s instead of '
                                     'the requested values' % (guards or '(unconditional)', got))
    if probs:
        rep.bad('R16.c', 'BGP.send_route_refresh', file=sr.file, line=sr.node.lineno, func=sr.qualname,
                found=sorted(set(probs))[0], expected='the requested afi, res, safi on every writing path',
                key='BGP.send_route_refresh')
    elif nwr:
        rep.ok('R16.c', 'BGP.send_route_refresh', file=sr.file, line=sr.node.lineno, found='%d write(s)' % nwr)
    else:
        rep.undecided('R16.c', 'BGP.send_route_refresh', file=sr.file, line=sr.node.lineno, found='no writing path')
    # api_utils.send_* report success only from the protocol's result
    for name, meth in (('send_update', 'send_update'), ('send_bin_update', 'send_bin_update'),
                       ('send_route_refresh', 'send_route_refresh')):
        f = u.functions.get(name)
        if f is None:
            raise AnalysisError('api.utils.%s vanished' % name)
        good = True
        why = ''
        trues = [n for n in ast.walk(f.node) if isinstance(n, ast.Dict) and
                 any(isinstance(k, ast.Constant) and k.value == 'status' and isinstance(val, ast.Constant)
                     and val.value is True for k, val in zip(n.keys, n.values))]
        # ... or built by a trivial module-level helper (`return _success()`)
        hr = common.helper_returns(u)
        trues += [n for n in ast.walk(f.node) if isinstance(n, ast.Call) and isinstance(n.func, ast.Name)
                  and n.func.id in hr and "'status': True" in hr[n.func.id].replace('"', "'")]
        for t in trues:
            guards = [i for i in ast.walk(f.node) if isinstance(i, ast.If) and
                      any(t is x for b in i.body for x in ast.walk(b))]
            if not any('.fsm.protocol.%s(' % meth in common.expand_helpers(u, src_of(i.test)) for i in guards):
                good = False
                why = 'status True is returned without testing the result of protocol.%s' % meth
        calls = [n for n in ast.walk(f.node) if isinstance(n, ast.Call) and isinstance(n.func, ast.Attribute)
                 and n.func.attr == meth]
        if len(calls) != 1:
            good = False
            why = '%d calls of protocol.%s (exactly one message per request expected)' % (len(calls), meth)
        elif "running_config['factory'].fsm.protocol" not in common.expand_helpers(u, src_of(calls[0].func.value)):
            good = False
            why = 'the message is not sent on the tracked protocol (factory.fsm.protocol)'
        key = 'utils.%s' % name
        if good and trues:
            rep.ok('R16.c', key, file=f.file, line=f.node.lineno)
        else:
            rep.bad('R16.c', key, file=f.file, line=f.node.lineno, func=f.qualname,
                    found=why or 'no success path', key=key)

    # what api.utils.send_update hands to protocol.send_update is the request: all three sections, unchanged,
    # on every path
    from .. import codec
    from ..values import Opaque, Obj
    fsu = u.functions.get('send_update')
    names = [p_ for p_ in fsu.params]
    try:
        _f, outs = codec.run(prog, fsu.qualname, [Opaque(n_) for n_ in names], {}, may_raise=False)
    except AnalysisError as e:
        rep.undecided('R16.c', 'utils.send_update:arguments', file=fsu.file, line=fsu.node.lineno, found=str(e))
        outs = []
    bad = None
    nsend = 0
    for k, v, st in outs:
        for a in st.actions:
            if a.kind == 'call' and a.meth == 'send_update':
                nsend += 1
                arg = a.args[0] if a.args else None
                items = st.heap[arg.oid].items if isinstance(arg, Obj) and arg.oid in st.heap and \
                    st.heap[arg.oid].kind == 'dict' else None
                guards = ' & '.join(('%s' if b else 'not %s') % t for t, b, l, q in st.path[-3:])
                if items is None:
                    bad = bad or 'protocol.send_update receives %s' % (arg.desc() if arg is not None else None)
                    continue
                for sec in ('attr', 'nlri', 'withdraw'):
                    got = items.get(sec)
                    if got is None or got.desc() != sec:
                        bad = bad or 'on the path %s the message handed to protocol.send_update has %s = %s: that ' \
                                     'part of the request is not sent although success is reported' % (
                                         guards or '(unconditional)', sec, got.desc() if got is not None else 'missing')
    key = 'utils.send_update:arguments'
    if bad:
        rep.bad('R16.c', key, file=fsu.file, line=fsu.node.lineno, func=fsu.qualname, found=bad,
                expected="{'attr': attr, 'nlri': nlri, 'withdraw': withdraw} on every path", key=key)
    elif nsend:
        rep.ok('R16.c', key, file=fsu.file, line=fsu.node.lineno, found='%d send(s) on %d path(s)' % (nsend, len(outs)))
    elif outs:
        rep.undecided('R16.c', key, file=fsu.file, line=fsu.node.lineno, found='no send_update call seen')
