"""C07 - multiprotocol NLRI round trip (necessary structural conditions)."""
import ast

from ..front import AnalysisError, NotConst, src_of
from ..values import Const, Sym, Opaque, Obj, BytesV, TupleV, State, INF
from .. import prims
from .. import codec
from .. import bytelen as BL
from . import common
from .c08 import width_rule

MPR = 'yabgp.message.attribute.mpreachnlri.MpReachNLRI'
MPU = 'yabgp.message.attribute.mpunreachnlri.MpUnReachNLRI'
EVPN = 'yabgp.message.attribute.nlri.evpn.EVPN'
VPN = 'yabgp.message.attribute.nlri.mpls_vpn.MPLSVPN'
CONSTRUCT_ONLY = {(1, 73), (2, 133)}       # SR-TE policy, IPv6 flowspec (the property says so)


def family_table(prog, f, method):
    """(afi, safi) -> set of codec class names whose `method` is called under that condition."""
    out = {}

    def walk(stmts, afi, safi):
        for st in stmts:
            if isinstance(st, ast.If):
                a, s = afi, safi
                t = st.test
                conds = [t] if not isinstance(t, ast.BoolOp) else list(t.values)
                for c in conds:
                    if isinstance(c, ast.Compare) and len(c.ops) == 1 and isinstance(c.ops[0], ast.Eq):
                        v = prog.try_fold(c.comparators[0], f.module, f.cls)
                        if src_of(c.left) == 'afi':
                            a = v
                        elif src_of(c.left) == 'safi':
                            s = v
                    if isinstance(c, ast.Compare) and len(c.ops) == 1 and isinstance(c.ops[0], ast.Eq) and \
                            src_of(c.left) in ('afi_safi', "value['afi_safi']", '(afi, safi)'):
                        v = prog.try_fold(c.comparators[0], f.module, f.cls)
                        if isinstance(v, (tuple, list)) and len(v) == 2:
                            a, s = v
                walk(st.body, a, s)
                walk(st.orelse, afi, safi)
            elif isinstance(st, (ast.Try,)):
                walk(st.body, afi, safi)
                for h in st.handlers:
                    walk(h.body, afi, safi)
                walk(st.orelse, afi, safi)
            elif isinstance(st, (ast.For, ast.While, ast.With)):
                walk(st.body, afi, safi)
            else:
                for c in ast.walk(st):
                    if isinstance(c, ast.Call) and isinstance(c.func, ast.Attribute) and c.func.attr == method:
                        recv = c.func.value
                        if isinstance(recv, ast.Call):
                            recv = recv.func
                        name = src_of(recv)
                        if name in ('struct', 'cls', 'self') or name.startswith('super'):
                            continue
                        if afi is not None and safi is not None:
                            out.setdefault((afi, safi), set()).add(name)
    walk(f.node.body, None, None)
    return out


def esi_size(prog, f, v, st):
    """Size of an ESI byte string.  Assumptions (recorded): a MAC address has six groups, so
    b''.join(<one octet per group>) is 6 octets; binascii.a2b_hex(x) is K/2 octets when x was
    left-padded with '0' to the constant width K right before, otherwise its size is variable."""
    lo = hi = 0
    if not isinstance(v, BytesV):
        return prims.bytes_len(v, st)
    for p in BL.flatten(v):
        if p[0] == 'opq' and isinstance(p[1], Opaque) and '.join(' in p[1].d:
            lo += 6
            hi += 6
        elif p[0] == 'opq' and isinstance(p[1], Opaque) and 'a2b_hex' in p[1].d:
            k = padded_width(f, p[1].d)
            if k is None:
                hi = INF
                lo += 1
            else:
                lo += k // 2
                hi += k // 2
        else:
            a, b = prims.bytes_len(BytesV([p]), st)
            lo += a
            hi += b
    return (lo, hi)


def padded_width(f, desc):
    """desc ends with '@<line>' of the a2b_hex call: find the constant '0'-padding width of its
    argument in the statements just before it."""
    try:
        line = int(desc.rsplit('@', 1)[1].rstrip(')'))
    except (IndexError, ValueError):
        return None
    call = None
    for n in ast.walk(f.node):
        if isinstance(n, ast.Call) and src_of(n.func).endswith('a2b_hex') and n.lineno == line:
            call = n
    if call is None or not call.args or not isinstance(call.args[0], ast.Name):
        return None
    var = call.args[0].id
    best = None
    for n in ast.walk(f.node):
        if isinstance(n, ast.If) and n.lineno < line and isinstance(n.test, ast.Compare) and \
                isinstance(n.test.ops[0], ast.Lt) and isinstance(n.test.comparators[0], ast.Constant):
            k = n.test.comparators[0].value
            for b in n.body:
                if isinstance(b, ast.Assign) and isinstance(b.targets[0], ast.Name) and b.targets[0].id == var \
                        and isinstance(b.value, ast.BinOp) and isinstance(b.value.op, ast.Add) and \
                        isinstance(b.value.left, ast.BinOp) and isinstance(b.value.left.op, ast.Mult) and \
                        isinstance(b.value.left.left, ast.Constant) and b.value.left.left.value == '0' and \
                        src_of(b.value.left.right).replace(' ', '').lstrip('(').startswith('%d-' % k):
                    if best is None or n.lineno > best[0]:
                        best = (n.lineno, k)
    return best[1] if best else None


def labeled_prefix_bytes(prog, rep, bind, alen, maxlen):
    """Finite partition over the prefix length m of one labeled-unicast route (one label): the bytes
    handed to the address constructor must be exactly the address length of the family (prefix octets
    + zero padding), for every m including 0."""
    import math
    from ..interp import Interp
    from ..values import ClassV, FuncV
    qual = 'yabgp.message.attribute.nlri.labeled_unicast.LabeledUnicast.parse'
    f = prog.func(qual)
    cls = prog.cls(bind)
    bads = []
    n = 0
    for m in range(0, maxlen + 1):
        ip = Interp(prog, max_paths=4000)
        ip.while_unroll = 1
        ip.record_hexlify = True
        st = State()
        st.frames.append({})
        nbytes = int(math.ceil(m / 8.0))
        data = BytesV([('lit', bytes([24 + m]) + b'\x00\x01\x01' + b'\x0a' * nbytes)])
        outs = ip.call_func(FuncV(f, ClassV(cls)), [data, Const(False)], {}, st)
        for k, v, s in outs:
            if k != 'val':
                continue
            n += 1
            for a in s.actions:
                if a.kind == 'call' and a.meth == 'b2a_hex' and a.func and a.func.endswith('LabeledUnicast.parse'):
                    lo, hi = prims.bytes_len(a.args[0], s)
                    if (lo, hi) != (alen, alen):
                        bads.append((m, 'the address is built from %s octets (expected %d)' % (
                            lo if lo == hi else '%s..%s' % (lo, hi), alen)))
    key = 'prefix-bytes:%s' % bind.rsplit('.', 1)[-1]
    if n == 0:
        rep.undecided('R07.b', key, file=f.file, line=f.node.lineno, found='no decoding path')
    elif bads:
        seen = set()
        for m, why in bads:
            if m in seen or len(seen) >= 4:
                continue
            seen.add(m)
            rep.bad('R07.b', key + ':m=%d' % m, file=f.file, line=f.node.lineno, func=qual,
                    found='prefix length %d: %s' % (m, why), expected='ceil(m/8) prefix octets + zero padding',
                    key=key + ':m=%d' % m)
    else:
        rep.ok('R07.b', key, file=f.file, line=f.node.lineno, found='%d lengths, %d paths' % (maxlen + 1, n))


def operator_octet(prog, rep, clsq, rule='R07.h', decode=True):
    short = clsq.rsplit('.', 1)[-1]
    fp = prog.func(clsq + '.parse_operator_flag')
    key = 'operator-decode:%s' % short
    bad = None
    n = 0
    for d in (range(256) if decode else ()):
        want = {'EOL': (d >> 7) & 1, 'AND': (d >> 6) & 1, 'LEN': 1 << ((d >> 4) & 3), 'LT': (d >> 2) & 1,
                'GT': (d >> 1) & 1, 'EQ': d & 1}
        _f, outs = codec.run(prog, fp.qualname, [Const(d)], {}, may_raise=False)
        for k, v, st in outs:
            if k != 'val' or not isinstance(v, Obj) or v.oid not in st.heap:
                bad = bad or 'octet 0x%02x: %s %s' % (d, k, v.desc() if hasattr(v, 'desc') else v)
                continue
            n += 1
            got = {a: (b.value if isinstance(b, Const) else b.desc()) for a, b in st.heap[v.oid].items.items()}
            diff = sorted(a for a in want if got.get(a) != want[a])
            if diff and not bad:
                bad = 'octet 0x%02x decodes to %s, RFC 5575: %s' % (
                    d, {a: got.get(a) for a in diff}, {a: want[a] for a in diff})
    if not decode:
        pass
    elif bad:
        rep.bad(rule, key, file=fp.file, line=fp.node.lineno, func=fp.qualname, found=bad, key=key)
    elif n >= 256:
        rep.ok(rule, key, file=fp.file, line=fp.node.lineno, found='256 octets')
    else:
        rep.undecided(rule, key, file=fp.file, line=fp.node.lineno, found='only %d octets evaluated' % n)
    # the operand handed to the operator octet has at least one octet: construct_operator_flag maps a length of 0
    # to code 0 (= 1 octet) without complaint, so an empty operand would be announced as one octet that is not there
    fo = prog.func(clsq + '.construct_operators')
    key = 'operand-nonempty:%s' % short
    lens = [n for n in ast.walk(fo.node) if isinstance(n, ast.Assign) and isinstance(n.targets[0], ast.Subscript)
            and src_of(n.targets[0].slice) in ("'LEN'", '"LEN"') and isinstance(n.value, ast.Call)
            and src_of(n.value.func) == 'len' and n.value.args and isinstance(n.value.args[0], ast.Name)]
    if not lens:
        rep.undecided(rule, key, file=fo.file, line=fo.node.lineno, found="no flag['LEN'] = len(<operand>) found")
    else:
        var = lens[0].value.args[0].id
        shrink = None
        for n in ast.walk(fo.node):
            if isinstance(n, ast.Assign) and any(isinstance(t, ast.Name) and t.id == var for t in n.targets):
                for c in ast.walk(n.value):
                    if isinstance(c, ast.Call) and isinstance(c.func, ast.Attribute) and \
                            c.func.attr in ('lstrip', 'rstrip', 'strip'):
                        shrink = c
                    if isinstance(c, ast.Subscript) and isinstance(c.slice, ast.Slice):
                        shrink = c
                    # int.to_bytes with a size computed from bit_length(): 0 has bit length 0, hence no octet at all
                    if isinstance(c, ast.Call) and isinstance(c.func, ast.Attribute) and c.func.attr == 'to_bytes' and \
                            c.args and 'bit_length' in src_of(c.args[0]) and 'max(' not in src_of(c.args[0]) and \
                            ' or ' not in src_of(c.args[0]):
                        shrink = c
        if shrink is not None:
            rep.bad(rule, key, file=fo.file, line=shrink.lineno, func=fo.qualname,
                    found='the operand bytes are produced by %s, which is empty for the operand 0: the operator octet '
                          'then announces one value octet and none follows' % src_of(shrink)[:70],
                    expected='an operand of at least one octet for every value', key=key)
        else:
            rep.ok(rule, key, file=fo.file, line=lens[0].lineno, found='operand %s' % var)
    fc = prog.func(clsq + '.construct_operator_flag')
    for ln in range(1, 9):
        key = 'operator-encode:%s:len=%d' % (short, ln)
        bad = None
        n = 0
        for bits in range(32):
            items = {'EOL': bits & 1, 'LEN': ln}
            for i, nm in enumerate(('AND', 'LT', 'GT', 'EQ')):
                if bits >> (i + 1) & 1:
                    items[nm] = 1

            def mk(st, items=items):
                o = st.new_obj('dict', hint='flag')
                st.heap[o.oid].items = {k: Const(v) for k, v in items.items()}
                return o
            _f, outs = codec.run(prog, fc.qualname, [mk], {}, may_raise=False)
            for k, v, st in outs:
                if k == 'raise':
                    continue        # refused loudly
                n += 1
                want = (items['EOL'] << 7) | (items.get('AND', 0) << 6) | (items.get('LT', 0) << 2) | \
                    (items.get('GT', 0) << 1) | items.get('EQ', 0)
                code = {1: 0, 2: 1, 4: 2, 8: 3}.get(ln)
                if not isinstance(v, Const) or not isinstance(v.value, int):
                    bad = bad or '%s -> %s' % (items, v.desc() if hasattr(v, 'desc') else v)
                elif code is None:
                    bad = bad or 'a %d-octet value is given operator octet 0x%02x: length code %d means %d octets ' \
                                 'to every decoder' % (ln, v.value, (v.value >> 4) & 3, 1 << ((v.value >> 4) & 3))
                elif v.value != (want | (code << 4)):
                    bad = bad or '%s is encoded as 0x%02x, RFC 5575: 0x%02x' % (items, v.value, want | (code << 4))
        if bad:
            rep.bad(rule, key, file=fc.file, line=fc.node.lineno, func=fc.qualname, found=bad, key=key)
        elif n:
            rep.ok(rule, key, file=fc.file, line=fc.node.lineno, found='%d flag combinations' % n)
        else:
            rep.ok(rule, key, file=fc.file, line=fc.node.lineno, found='length refused (raises)', nontrivial=False)


FS = 'yabgp.message.attribute.nlri.ipv4_flowspec.IPv4FlowSpec'


def _type_sets(prog, fn, tests_on):
    """[(set of ints or None (= everything else), body)] for an if/elif chain testing `tests_on`."""
    out = []

    def chain(node):
        t = node.test
        vals = None
        if isinstance(t, ast.Compare) and len(t.ops) == 1 and src_of(t.left) == tests_on:
            try:
                v = prog.fold(t.comparators[0], fn.module, fn.cls)
            except Exception:
                v = None
            if isinstance(t.ops[0], ast.In) and isinstance(v, (list, tuple, set, frozenset, dict)):
                vals = set(v)
            elif isinstance(t.ops[0], ast.Eq) and isinstance(v, int):
                vals = {v}
        if vals is None:
            return False
        out.append((vals, node.body))
        if len(node.orelse) == 1 and isinstance(node.orelse[0], ast.If):
            if not chain(node.orelse[0]):
                out.append((None, node.orelse))
        elif node.orelse:
            out.append((None, node.orelse))
        return True
    for n in ast.walk(fn.node):
        if isinstance(n, ast.If) and not out:
            chain(n)
    return out


def flowspec_component_types(prog, rep):
    """R07.m: every component type 1..11 the flowspec decoder stores in its result is written back by
    construct_nlri (a type the encoder does not iterate over is dropped without any error)."""
    fp = prog.func(FS + '.parse')
    fc = prog.func(FS + '.construct_nlri')
    # decoder: which types end up as a key of the returned dict
    tvar = None
    for n in ast.walk(fp.node):
        if isinstance(n, ast.Assign) and isinstance(n.targets[0], ast.Subscript) and \
                isinstance(n.targets[0].slice, ast.Name):
            tvar = n.targets[0].slice.id
            break
    chain = _type_sets(prog, fp, tvar) if tvar else []

    def stores(body):
        return any(isinstance(n, ast.Assign) and isinstance(n.targets[0], ast.Subscript) and
                   src_of(n.targets[0].slice) == tvar for b in body for n in ast.walk(b))
    dec = set()
    if chain:
        for t in range(1, 12):
            for vals, body in chain:
                if vals is None or t in vals:
                    if stores(body):
                        dec.add(t)
                    break
    else:
        # a single unconditional store (table-driven decoder): every type is stored
        for n in ast.walk(fp.node):
            if isinstance(n, ast.While) and stores(n.body):
                dec = set(range(1, 12))
    # encoder: the types iterated over / looked up with a write of the type octet
    enc = set()
    loops = 0
    for n in ast.walk(fc.node):
        if isinstance(n, ast.For) and isinstance(n.target, ast.Name):
            try:
                it = prog.fold(n.iter, fc.module, fc.cls)
            except Exception:
                try:
                    it = prog.fold(ast.parse(common.unalias(fc.node, n.iter), mode='eval').body, fc.module, fc.cls)
                except Exception:
                    continue
            if not isinstance(it, (list, tuple, set, frozenset, dict)) or not all(isinstance(x, int) for x in it):
                continue
            writes = any(isinstance(m, (ast.AugAssign, ast.Assign)) and
                         any(isinstance(q, ast.Name) and q.id == n.target.id for q in ast.walk(m.value))
                         for b in n.body for m in ast.walk(b))
            if writes:
                loops += 1
                enc |= set(it)
    if not dec or not loops:
        rep.undecided('R07.m', 'flowspec-component-types', file=fc.file, line=fc.node.lineno,
                      found='decoder stores %s, encoder loops recognised: %d' % (sorted(dec), loops))
        return
    n_ok = 0
    for t in sorted(dec):
        key = 'flowspec-component:%d' % t
        if t in enc:
            n_ok += 1
            rep.ok('R07.m', key, file=fc.file, line=fc.node.lineno, found='decoded and re-encoded')
        else:
            rep.bad('R07.m', key, file=fc.file, line=fc.node.lineno, func=fc.qualname,
                    found='flowspec component type %d is decoded into the rule by %s but construct_nlri never '
                          'writes it: the component is dropped from the re-encoded rule without any error '
                          '(encoder handles %s)' % (t, fp.qualname, sorted(enc)),
                    expected='every decoded component type is written back, or refused loudly', key=key)
    rep.floor('R07.m', 'flowspec component types decoded', len(dec), 11)


def prefix_padded_before_conversion(prog, rep):
    """R07.b: the prefix octets of a route (0..4 / 0..16 of them, none for a /0) are padded with zero octets before
    they are turned into a number: int(b2a_hex(b''), 16) and struct.unpack('!I', b'') raise."""
    n = 0
    for qual in (VPN + '.parse', 'yabgp.message.attribute.nlri.ipv6_unicast.IPv6Unicast.parse',
                 'yabgp.message.attribute.nlri.labeled_unicast.LabeledUnicast.parse'):
        f = prog.func(qual)
        convs = []
        for c in ast.walk(f.node):
            if isinstance(c, ast.Call) and src_of(c.func) == 'binascii.b2a_hex' and c.args and isinstance(c.args[0], ast.Name):
                convs.append((c, c.args[0].id))
            if isinstance(c, ast.Call) and src_of(c.func) == 'struct.unpack' and len(c.args) == 2 and \
                    isinstance(c.args[1], ast.Name) and isinstance(c.args[0], ast.Constant) and c.args[0].value in ('!I', '!L'):
                convs.append((c, c.args[1].id))
        for c, var in convs:
            n += 1
            key = 'prefix-padded:%s:%s' % (qual.rsplit('.', 2)[-2], var)
            def zero_pad(e):
                return any(isinstance(k, ast.Constant) and isinstance(k.value, bytes) and set(k.value) == {0}
                           for k in ast.walk(e))
            pads = [a for a in ast.walk(f.node) if a.__class__ in (ast.AugAssign, ast.Assign) and a.lineno < c.lineno and
                    any(isinstance(t, ast.Name) and t.id == var
                        for t in ([a.target] if isinstance(a, ast.AugAssign) else a.targets)) and
                    zero_pad(a.value) and (isinstance(a, ast.Assign) or isinstance(a.op, ast.Add))]
            if pads:
                if not any(i.key == key for i in rep.instances):
                    rep.ok('R07.b', key, file=f.file, line=c.lineno, found='padded at line %d' % pads[0].lineno, key=key)
            else:
                rep.bad('R07.b', key, file=f.file, line=c.lineno, func=qual,
                        found='%s converts the received prefix octets `%s` without padding them first: a route of prefix '
                              'length 0 carries no octet and the conversion raises, the whole attribute is lost' % (
                                  src_of(c)[:60], var), expected='zero padding to the address width before the conversion',
                        key=key)
    rep.floor('R07.b', 'prefix conversions in the route decoders', n, 3)


def one_nlri_per_route(prog, rep):
    nfun = 0
    bad = []
    for f in prog.all_functions():
        if not f.module.name.startswith(('yabgp.message.attribute.nlri', 'yabgp.message.attribute.mpreachnlri',
                                         'yabgp.message.attribute.mpunreachnlri')) or not f.name.startswith('construct'):
            continue
        nfun += 1
        params = set(p for p in f.params if p not in ('cls', 'self'))
        for n in ast.walk(f.node):
            if isinstance(n, ast.For) and isinstance(n.iter, ast.Name) and n.iter.id in params and \
                    isinstance(n.target, ast.Name):
                for b in n.body:
                    for a in ast.walk(b):
                        if isinstance(a, ast.Assign) and isinstance(a.targets[0], ast.Subscript) and \
                                isinstance(a.value, ast.Name) and a.value.id == n.target.id:
                            bad.append((f, a, 'stores each route under the key %s' % src_of(a.targets[0].slice)))
            if isinstance(n, ast.Call) and isinstance(n.func, ast.Name) and n.func.id in ('set', 'frozenset') and \
                    n.args and isinstance(n.args[0], ast.Name) and n.args[0].id in params:
                bad.append((f, n, 'turns the route list into a set'))
            if isinstance(n, ast.DictComp) and isinstance(n.generators[0].iter, ast.Name) and \
                    n.generators[0].iter.id in params and isinstance(n.value, ast.Name) and \
                    isinstance(n.generators[0].target, ast.Name) and n.value.id == n.generators[0].target.id:
                bad.append((f, n, 'keys the routes by %s' % src_of(n.key)))
    for f, n, why in bad:
        key = 'route-list-folded:%s' % f.qualname.split('yabgp.message.attribute.')[-1]
        rep.bad('R07.o', key, file=f.file, line=n.lineno, func=f.qualname,
                found='%s %s before encoding: two routes of one attribute that agree on that key are written once' % (
                    f.qualname, why), expected='one NLRI per element of the list', key=key)
    if not bad:
        rep.ok('R07.o', 'route-lists', found='%d construct functions, none folds its route list' % nfun)
    rep.floor('R07.o', 'NLRI construct functions', nfun, 20)


def stateless_codecs(prog, rep):
    """R07.n: the NLRI codecs keep nothing between calls - no write to module, class or configuration state
    (one decoded value must not depend on the values decoded before it)."""
    from .c10 import shared_state_writes
    sel = lambda f: f.module.name.startswith(('yabgp.message.attribute.nlri', 'yabgp.message.attribute.mpreachnlri',
                                              'yabgp.message.attribute.mpunreachnlri'))
    nfun, hits = shared_state_writes(prog, sel, allow_memo=True)
    seen = set()
    for f, node, desc in hits:
        key = 'state-write:%s:%s' % (f.qualname.split('yabgp.message.attribute.')[-1], desc.split(' ')[0][:60])
        if key in seen:
            continue
        seen.add(key)
        rep.bad('R07.n', key, file=f.file, line=node.lineno, func=f.qualname,
                found='%s: an NLRI codec writes state that outlives the call (%s), so one value\'s round trip '
                      'depends on what was encoded or decoded before it' % (f.qualname, desc),
                expected='codecs are pure functions of their argument', key=key)
    if not hits:
        rep.ok('R07.n', 'nlri-codecs-stateless', found='%d functions, none writes shared state' % nfun)
    rep.floor('R07.n', 'NLRI codec functions scanned', nfun, 60)


def check(prog, rep, tier):
    rep.rule('R07.a', 'family dispatch symmetry: every (AFI, SAFI) MP_REACH / MP_UNREACH construct emits is '
                      'decoded by the same codec class in parse (SR-TE and IPv6 flowspec are construct-only)')
    rep.rule('R07.b', 'prefix width of the NLRI helpers: ceil(m / 8) address octets for every prefix length, from a '
                      'full-width address value')
    rep.rule('R07.c', 'fixed-size records: construct_esi returns exactly 10 octets for every ESI type, '
                      'construct_rd exactly 8, every label-stack entry is 3 octets')
    rep.rule('R07.d', 'type-tag symmetry: the RD types and ESI types handled by the encoder are handled by the decoder')
    rep.rule('R07.f', 'label bottom-of-stack: the encoder sets the S bit on the last label for every label value')
    rep.rule('R07.g', 'order and multiplicity kept: no NLRI / MP codec sorts, reverses or de-duplicates a collection '
                      'of input elements')
    rep.rule('R07.h', 'flowspec operator octet: for every octet 0..255 the decoder extracts the RFC 5575 fields '
                      '(e, a, len = 1 << bits 5..4, lt, gt, eq); every length the encoder accepts is encoded as the '
                      'code the decoder maps back to it')
    rep.rule('R07.i', 'field boundaries: no comparison in the NLRI / MP codecs splits a range between 2**k - 2 and '
                      '2**k - 1')
    rep.rule('R07.j', 'EVPN route decoders never drop or truncate a route: every returning path of a route-type parse '
                      'yields every key its sibling encoder reads unconditionally')
    rep.rule('R07.k', 'IPv6 unicast MP_REACH next hop: the link-local part is reported exactly when the next-hop '
                      'length is 32, independent of the address values')
    rep.rule('R07.m', 'flowspec component types: every component type 1..11 that IPv4FlowSpec.parse stores in the rule '
                      'is written back by construct_nlri (a type the encoder does not iterate over is dropped from '
                      'the re-encoded rule without any error)')
    rep.rule('R07.n', 'NLRI codecs are stateless: no function of the NLRI / MP_REACH / MP_UNREACH codecs writes module, '
                      'class or configuration state, so a value\'s round trip never depends on earlier calls (a memo '
                      'table keyed by the complete, un-rebound argument list is the one exception)')
    rep.rule('R07.o', '1..n routes per attribute: no NLRI encoder folds the route list it is given into a dictionary or set '
                      '(a key that leaves out part of the route merges distinct routes; the decoded list comes back shorter)')
    rep.rule('R07.l', 'unsigned wire: no signed struct code and no pad code (x) in any format string of the NLRI / MP codecs')
    rep.assumptions += ['value equality of the round trip is not decided',
                        'a MAC address has six groups (b"".join of one octet per group is 6 octets)']

    # ---------------------------------------------------------------- R07.a
    for cls in (MPR, MPU):
        fc = prog.func(cls + '.construct')
        fp = prog.func(cls + '.parse')
        tc = family_table(prog, fc, 'construct')
        tp = family_table(prog, fp, 'parse')
        rep.floor('R07.a', '%s families constructed' % cls.rsplit('.', 1)[-1], len(tc), 6)
        for fam, classes in sorted(tc.items()):
            key = 'family:%s:%s' % (cls.rsplit('.', 1)[-1], fam)
            if fam in CONSTRUCT_ONLY:
                rep.ok('R07.a', key, file=fc.file, line=fc.node.lineno, nontrivial=False, found='construct-only family')
                continue
            dec = tp.get(fam)
            if not dec:
                rep.bad('R07.a', key, file=fc.file, line=fc.node.lineno, func=fc.qualname,
                        found='family %s is encoded by %s but %s.parse does not decode it' % (
                            fam, sorted(classes), cls.rsplit('.', 1)[-1]), key=key)
            elif not (classes & dec):
                rep.bad('R07.a', key, file=fc.file, line=fc.node.lineno, func=fc.qualname,
                        found='family %s is encoded by %s but decoded by %s' % (fam, sorted(classes), sorted(dec)), key=key)
            else:
                rep.ok('R07.a', key, file=fc.file, line=fc.node.lineno, found=sorted(classes & dec))

    # ---------------------------------------------------------------- R07.b
    width_rule(prog, rep, 'R07.b', only=('NLRI.construct_prefix_v4', 'NLRI.construct_prefix_v6',
                                         'IPv4FlowSpec.construct_prefix'))

    from .c06 import decoder_width
    decoder_width(prog, rep, 'R07.b', 'yabgp.message.attribute.nlri.ipv6_unicast.IPv6Unicast.parse', 128, [Const(False)])

    for bind, alen, maxlen in (('yabgp.message.attribute.nlri.labeled_unicast.ipv4.IPv4LabeledUnicast', 4, 32),
                               ('yabgp.message.attribute.nlri.labeled_unicast.ipv6.IPv6LabeledUnicast', 16, 128)):
        labeled_prefix_bytes(prog, rep, bind, alen, maxlen)

    # ---------------------------------------------------------------- R07.c
    cm = prog.module('yabgp.common.constants')
    f = prog.func(EVPN + '.construct_esi')
    handled_enc = set()
    esi_pad = {}
    for t in range(0, 6):
        def esi(st, t=t):
            o = st.new_obj('dict', hint='esi')
            st.heap[o.oid].items = {'type': Const(t), 'value': Opaque('esi_value')}
            return o
        _f, outs = codec.run(prog, EVPN + '.construct_esi', [esi], {}, may_raise=False, unique='all')
        key = 'esi-size:type%d' % t
        sizes = set()
        for k, v, s in outs:
            if k != 'val':
                continue
            if isinstance(v, Const) and v.value == b'':
                sizes.add((0, 0))
                continue
            sizes.add(esi_size(prog, f, v, s))
            if isinstance(v, BytesV):
                pad = 0
                for p in reversed(BL.flatten(v)):
                    if p[0] == 'lit' and set(p[1]) <= {0}:
                        pad += len(p[1])
                    else:
                        break
                esi_pad[t] = min(esi_pad.get(t, 10), pad)
        if sizes and sizes != {(0, 0)}:
            handled_enc.add(t)
        if sizes == {(10, 10)}:
            rep.ok('R07.c', key, file=f.file, line=f.node.lineno, found='10 octets on every path')
        else:
            rep.bad('R07.c', key, file=f.file, line=f.node.lineno, func=f.qualname,
                    found='ESI type %d is encoded in %s octets' % (t, sorted(
                        '%s..%s' % (a, b) if a != b else str(a) for a, b in sizes)),
                    expected='exactly 10 octets', key=key)
    # the decoder reads every value octet the encoder writes (sibling agreement on the 10-octet record)
    fd = prog.func(EVPN + '.parse_esi')
    _f, outs = codec.run(prog, EVPN + '.parse_esi', [codec.fixbytes(10, 'esi')], {}, may_raise=False,
                         record_slices=True)
    read = {}
    for k, v, s in outs:
        if k != 'val':
            continue
        tsym = [n for n, i in s.syminfo.items() if i[0] == '!B']
        if not tsym:
            continue
        lo, hi = s.interval(tsym[0])[:2]
        if lo != hi:
            continue
        cov = set()
        for a in s.actions:
            if a.kind == 'slice' and a.meth == 'use' and a.target == 'esi':
                cov |= set(range(a.args[0].value, a.args[1].value))
        read[lo] = cov if lo not in read else (read[lo] & cov)
    for t in sorted(esi_pad):
        key = 'esi-read:type%d' % t
        need = set(range(1, 10 - esi_pad[t]))
        if t not in read:
            rep.undecided('R07.c', key, file=fd.file, line=fd.node.lineno, found='no decoder path for this type')
        elif need - read[t]:
            rep.bad('R07.c', key, file=fd.file, line=fd.node.lineno, func=fd.qualname,
                    found='ESI type %d: the encoder writes value octets 1..%d, the decoder never reads octet(s) %s' % (
                        t, 9 - esi_pad[t], sorted(need - read[t])),
                    expected='every value octet is decoded', key=key)
        else:
            rep.ok('R07.c', key, file=fd.file, line=fd.node.lineno, found='octets 1..%d read' % (9 - esi_pad[t]))
    rep.floor('R07.c', 'ESI types with a decoder path', len(read), 6)

    f = prog.func(VPN + '.construct_rd')
    _f, outs = codec.run(prog, VPN + '.construct_rd', [Opaque('rd')], {}, may_raise=False)
    sizes = set()
    rd_types = set()
    for k, v, s in outs:
        if k == 'val' and isinstance(v, BytesV):
            lo, hi = prims.bytes_len(v, s)
            if hi == INF:
                # one packed IPv4 address inside a type-1 RD
                l = BL.bytelen(v, s)
                if l is not None and len(l[1]) == 1 and BL.is_ip_atom(list(l[1])[0]) and l[0] + 4 == 8:
                    lo = hi = 8
            sizes.add((lo, hi))
            items = BL.fields(BL.flatten(v))
            if items and items[0][0] == 'field' and isinstance(items[0][2], Const):
                rd_types.add(items[0][2].value)
    # field ranges of the numeric RD types: type 0 = 2-octet ASN : 4-octet number, type 2 = 4-octet ASN :
    # 2-octet number.  The ASN must fit its field on the path that picks the type, and type 2 must be
    # picked only for ASNs that do not fit 16 bits (otherwise a 32-bit number lands in a 16-bit field).
    for k, v, s in outs:
        if k != 'val' or not isinstance(v, BytesV):
            continue
        items = BL.fields(BL.flatten(v))
        codes = ''.join(p[1] for p in items if p[0] == 'field')
        if codes not in ('HHI', 'HIH') or not isinstance(items[0][2], Const):
            continue
        asn = items[1][2]
        lo, hi, _n = s.interval(asn.desc()) if not isinstance(asn, Const) else (asn.value, asn.value, None)
        key = 'rd-range:type%d' % items[0][2].value
        if codes == 'HHI' and hi > 65535:
            rep.bad('R07.c', key, file=f.file, line=items[1][3], func=f.qualname,
                    found='RD type 0 is chosen for an ASN up to %s, which does not fit the 2-octet field' % hi,
                    expected='ASN <= 65535', key=key)
        elif codes == 'HIH' and lo <= 65535:
            rep.bad('R07.c', key, file=f.file, line=items[1][3], func=f.qualname,
                    found='RD type 2 (4-octet ASN : 2-octet number) is chosen for ASNs from %s, i.e. also for an '
                          'ASN that fits 16 bits, whose assigned number may need 32 bits' % lo,
                    expected='type 2 only for ASN > 65535', key=key)
        elif not any(i.key == key for i in rep.instances):
            rep.ok('R07.c', key, file=f.file, line=items[1][3], found='ASN in [%s, %s]' % (lo, hi))
    if sizes == {(8, 8)}:
        rep.ok('R07.c', 'rd-size', file=f.file, line=f.node.lineno, found='8 octets on every path, types %s' % sorted(rd_types))
    else:
        rep.bad('R07.c', 'rd-size', file=f.file, line=f.node.lineno, func=f.qualname,
                found='route distinguisher encoded in %s octets' % sorted(sizes), expected='8', key='rd-size')
    # the decoder leaves the label loop on the bottom-of-stack bit only: any other exit (a "special" label value)
    # cuts a deeper stack short, and the labels left over are read as RD / prefix octets
    import re as _re
    for qual in ('yabgp.message.attribute.nlri.NLRI.parse_mpls_label_stack', VPN + '.parse_mpls_label_stack'):
        f = prog.func(qual)
        key = 'label-loop-exit:%s' % qual.split('.')[-2]
        brk = [n for n in ast.walk(f.node) if isinstance(n, ast.Break)]
        badb = None
        for b in brk:
            conds = common.conds_at(f.node, b)
            inner = conds[-1] if conds else None
            txt = src_of(inner[0]) if inner else ''
            t = inner[0] if inner else None
            if isinstance(t, ast.Compare) and len(t.ops) == 1 and isinstance(t.ops[0], (ast.NotEq, ast.Eq)) and \
                    prog.try_fold(t.comparators[0], f.module, f.cls) == (0 if isinstance(t.ops[0], ast.NotEq) else 1):
                t = t.left
            sbit_test = isinstance(t, ast.BinOp) and isinstance(t.op, ast.BitAnd) and \
                1 in (prog.try_fold(t.right, f.module, f.cls), prog.try_fold(t.left, f.module, f.cls))
            if not (inner and inner[1] and sbit_test):
                badb = (b, txt)
        if badb:
            rep.bad('R07.f', key, file=f.file, line=badb[0].lineno, func=qual,
                    found='the label loop is also left when `%s`: a stack whose non-bottom label has that value is cut '
                          'short and the remaining labels are taken for the RD / prefix' % badb[1],
                    expected='leave the loop on the S bit only', key=key)
        elif brk:
            rep.ok('R07.f', key, file=f.file, line=brk[0].lineno, found='%d exit(s), S bit only' % len(brk))
        else:
            rep.undecided('R07.f', key, file=f.file, line=f.node.lineno, found='no break in the label loop')
    # label entries
    for qual in ('yabgp.message.attribute.nlri.NLRI.construct_mpls_label_stack',
                 VPN + '.construct_mpls_label_stack'):
        f = prog.func(qual)
        def labels(st):
            o = st.new_obj('list', hint='labels')
            st.heap[o.oid].items = [prims.mk_sym(st, 'label0', 0, 2 ** 20 - 1), prims.mk_sym(st, 'label1', 0, 2 ** 20 - 1)]
            return o
        _f, outs = codec.run(prog, qual, [labels], {}, may_raise=False)
        key = 'label-size:%s' % qual.split('.')[-2]
        bad = None
        sbit = None
        upper = None
        for k, v, s in outs:
            if k != 'val':
                continue
            lo, hi = prims.bytes_len(v, s)
            if (lo, hi) != (6, 6):
                bad = 'two labels encode in %s..%s octets' % (lo, hi)
            # S bit on the last entry
            last = BL.flatten(v)[-1] if isinstance(v, BytesV) and BL.flatten(v) else None
            l1 = s.interval('label1')
            if last is not None and last[0] == 'lit':
                if not (last[1][-1] & 1):
                    sbit = sbit or 'last label in [%s, %s] is emitted as the literal %r without the bottom-of-stack bit' % (
                        l1[0], l1[1], last[1])
            elif last is not None and last[0] == 'fix':
                if '| 1' not in last[2]:
                    sbit = sbit or 'last label %s has no bottom-of-stack bit' % last[2][:60]
            # no S bit on an upper entry, whatever the label values (equal labels included)
            first = BL.flatten(v)[0] if isinstance(v, BytesV) and len(BL.flatten(v)) >= 2 else None
            if first is not None:
                up = (first[0] == 'fix' and '| 1' in first[2]) or (first[0] == 'lit' and first[1] and first[1][-1] & 1)
                if up:
                    guards = ' & '.join(('%s' if b else 'not %s') % t for t, b, l, q in s.path[-3:])
                    upper = upper or 'the first of two labels is emitted with the bottom-of-stack bit on the path %s: ' \
                                     'the decoder stops there and reads the rest of the stack as prefix bits' % (
                                         guards or '(unconditional)')
        if bad:
            rep.bad('R07.c', key, file=f.file, line=f.node.lineno, func=qual, found=bad, expected='3 octets per label', key=key)
        else:
            rep.ok('R07.c', key, file=f.file, line=f.node.lineno, found='3 octets per label')
        key = 'label-sbit:%s' % qual.split('.')[-2]
        if sbit:
            rep.bad('R07.f', key, file=f.file, line=f.node.lineno, func=qual, found=sbit,
                    expected='S bit set on the last label for every label value', key=key)
        else:
            rep.ok('R07.f', key, file=f.file, line=f.node.lineno)
        key = 'label-sbit-upper:%s' % qual.split('.')[-2]
        if upper:
            rep.bad('R07.f', key, file=f.file, line=f.node.lineno, func=qual, found=upper,
                    expected='S bit only on the last entry', key=key)
        else:
            rep.ok('R07.f', key, file=f.file, line=f.node.lineno)

    # ---------------------------------------------------------------- R07.g
    nf, sites = common.reorder_sites(prog, lambda fn: fn.module.name.startswith((
        'yabgp.message.attribute.nlri', 'yabgp.message.attribute.mpreachnlri', 'yabgp.message.attribute.mpunreachnlri')))
    for fn, node, what in sites:
        key = 'reorder:%s:%s' % (fn.qualname, what)
        rep.bad('R07.g', key, file=fn.file, line=node.lineno, func=fn.qualname,
                found='%s changes the order / multiplicity of values taken from the input' % what, key=key)
    if not sites:
        rep.ok('R07.g', 'order-kept', found='%d codec functions scanned' % nf)
    rep.floor('R07.g', 'codec functions', nf, 60)

    # ---------------------------------------------------------------- R07.j
    evpn_mod = prog.module('yabgp.message.attribute.nlri.evpn')
    nrt = 0
    for cname, ci in sorted(evpn_mod.classes.items()):
        fc, fp = ci.methods.get('construct'), ci.methods.get('parse')
        if cname == 'EVPN' or fc is None or fp is None:
            continue
        nrt += 1
        vparam = fc.params[1] if len(fc.params) > 1 else 'value'
        need = set()
        for st_ in fc.node.body:           # top-level statements only: read on every path
            if isinstance(st_, (ast.If, ast.For, ast.While, ast.Try)):
                continue
            for n in ast.walk(st_):
                if isinstance(n, ast.Subscript) and isinstance(n.value, ast.Name) and n.value.id == vparam and \
                        isinstance(n.slice, ast.Constant) and isinstance(n.slice.value, str):
                    need.add(n.slice.value)
        key = 'route-keys:%s' % cname
        try:
            _f, outs = codec.run(prog, fp.qualname, [Opaque('value', 'bytes')], {}, may_raise=False, unique=True)
        except AnalysisError as e:
            rep.undecided('R07.j', key, file=fp.file, line=fp.node.lineno, found=str(e))
            continue
        bad = None
        nv = 0
        for k, v, st_ in outs:
            if k != 'val':
                continue
            nv += 1
            keys = set(st_.heap[v.oid].items) if isinstance(v, Obj) and v.oid in st_.heap and \
                st_.heap[v.oid].kind == 'dict' else None
            if keys is None or not need <= keys:
                guards = ' & '.join(('%s' if b else 'not %s') % t for t, b, l, q in st_.path[-3:])
                bad = bad or 'a path returns %s without %s (%s): the route is dropped or comes back incomplete ' \
                             'although the encoder requires these keys' % (
                                 'a route' if keys is not None else v.desc()[:40],
                                 sorted(need - (keys or set())), guards or 'unconditional')
        if bad:
            rep.bad('R07.j', key, file=fp.file, line=fp.node.lineno, func=fp.qualname, found=bad,
                    expected='every returning path yields %s' % sorted(need), key=key)
        elif nv and need:
            rep.ok('R07.j', key, file=fp.file, line=fp.node.lineno, found='%d path(s), keys %s' % (nv, sorted(need)))
        else:
            rep.undecided('R07.j', key, file=fp.file, line=fp.node.lineno, found='no returning path / no mandatory key')
    rep.floor('R07.j', 'EVPN route types', nrt, 5)

    # ---------------------------------------------------------------- R07.k
    fpm = prog.func(MPR + '.parse')
    for nhlen, want_ll in ((16, False), (32, True)):
        key = 'ipv6-nexthop:%d' % nhlen
        val = BytesV([('lit', b'\x00\x02\x01' + bytes([nhlen])), ('fix', nhlen, 'nh'), ('lit', b'\x00'),
                      ('opq', Opaque('nlri', 'bytes'))])
        try:
            _f, outs = codec.run(prog, MPR + '.parse', [val], {}, may_raise=False, unique=True, record_slices=True)
        except AnalysisError as e:
            rep.undecided('R07.k', key, file=fpm.file, line=fpm.node.lineno, found=str(e))
            continue
        bad = None
        nv = 0
        for k, v, st_ in outs:
            if k != 'val' or not isinstance(v, Obj) or v.oid not in st_.heap:
                continue
            nv += 1
            has = 'linklocal_nexthop' in st_.heap[v.oid].items
            if has != want_ll:
                guards = ' & '.join(('%s' if b else 'not %s') % t for t, b, l, q in st_.path[-3:])
                bad = bad or 'IPv6 unicast MP_REACH with a %d-octet next hop: a path returns %s linklocal_nexthop ' \
                             '(%s)' % (nhlen, 'a' if has else 'no', guards or 'unconditional')
        if bad:
            rep.bad('R07.k', key, file=fpm.file, line=fpm.node.lineno, func=fpm.qualname, found=bad,
                    expected='link-local part reported exactly when the next hop is 32 octets, whatever its content',
                    key=key)
        elif nv:
            rep.ok('R07.k', key, file=fpm.file, line=fpm.node.lineno, found='%d path(s)' % nv)
        else:
            rep.undecided('R07.k', key, file=fpm.file, line=fpm.node.lineno, found='no returning path')

    # ---------------------------------------------------------------- R07.l
    common.report_signed_formats(prog, rep, 'R07.l', lambda fn: fn.module.name.startswith((
        'yabgp.message.attribute.nlri', 'yabgp.message.attribute.mpreachnlri', 'yabgp.message.attribute.mpunreachnlri')),
        60, pad=True)

    # ---------------------------------------------------------------- R07.i
    common.report_boundary_splits(prog, rep, 'R07.i', lambda fn: fn.module.name.startswith((
        'yabgp.message.attribute.nlri', 'yabgp.message.attribute.mpreachnlri', 'yabgp.message.attribute.mpunreachnlri')))

    # ---------------------------------------------------------------- R07.h
    for fsq in ('yabgp.message.attribute.nlri.ipv4_flowspec.IPv4FlowSpec',
                'yabgp.message.attribute.nlri.ipv6_flowspec.IPv6FlowSpec'):
        operator_octet(prog, rep, fsq)

    # ---------------------------------------------------------------- R07.m
    flowspec_component_types(prog, rep)

    # ---------------------------------------------------------------- R07.n
    stateless_codecs(prog, rep)

    # ---------------------------------------------------------------- R07.o
    one_nlri_per_route(prog, rep)
    prefix_padded_before_conversion(prog, rep)

    # ---------------------------------------------------------------- R07.d
    def const_compares(qual, var):
        fn = prog.func(qual)
        out = set()
        for n in ast.walk(fn.node):
            if isinstance(n, ast.Compare) and src_of(n.left) == var and isinstance(n.ops[0], ast.Eq):
                v = prog.try_fold(n.comparators[0], fn.module, fn.cls)
                if v is not None:
                    out.add(v)
        return fn, out
    fe, enc = const_compares(EVPN + '.construct_esi', 'esi_type')
    fd, dec = const_compares(EVPN + '.parse_esi', 'esi_type')
    if enc and enc <= dec:
        rep.ok('R07.d', 'esi-types', file=fe.file, line=fe.node.lineno, found='encoder %s, decoder %s' % (sorted(enc), sorted(dec)))
    else:
        rep.bad('R07.d', 'esi-types', file=fe.file, line=fe.node.lineno, func=fe.qualname,
                found='ESI types encoded %s, decoded %s' % (sorted(enc), sorted(dec)), key='esi-types')
    fd, dec = const_compares(VPN + '.parse_rd', 'rd_type')
    if rd_types and rd_types <= dec:
        rep.ok('R07.d', 'rd-types', file=fd.file, line=fd.node.lineno, found='encoder %s, decoder %s' % (sorted(rd_types), sorted(dec)))
    else:
        rep.bad('R07.d', 'rd-types', file=fd.file, line=fd.node.lineno, func=fd.qualname,
                found='RD types encoded %s, decoded %s' % (sorted(rd_types), sorted(dec)), key='rd-types')
