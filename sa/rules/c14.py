"""C14 - OPEN / NOTIFICATION / KEEPALIVE / ROUTE-REFRESH codecs (structural part)."""
import ast

from ..front import AnalysisError, NotConst, src_of
from ..values import Const, Sym, Opaque, Obj, BytesV, TupleV, State
from .. import prims
from .. import codec
from .. import bytelen as BL
from . import common

OPEN = 'yabgp.message.open.Open'
CAP = 'yabgp.message.open.Capability'
IANA_CAPS = {'MULTIPROTOCOL_EXTENSIONS': 1, 'ROUTE_REFRESH': 2, 'EXTENDED_NEXT_HOP': 5, 'GRACEFUL_RESTART': 64,
             'FOUR_BYTES_ASN': 65, 'ADD_PATH': 69, 'ENHANCED_ROUTE_REFRESH': 70, 'LLGR': 71,
             'CISCO_ROUTE_REFRESH': 128}


def formats(fn, name):
    out = []
    for n in ast.walk(fn.node):
        if isinstance(n, ast.Call) and src_of(n.func) == 'struct.' + name and n.args and \
                isinstance(n.args[0], ast.Constant):
            out.append((n.lineno, n.col_offset, n.args[0].value))
    return [x[2] for x in sorted(out)]


def check(prog, rep, tier):
    rep.rule('R14.a', 'total decoder: Open.parse returns the result dictionary on every normal path (with or '
                      'without optional parameters); Notification/RouteRefresh parse return their fields')
    rep.rule('R14.b', 'format agreement between the two directions: OPEN fixed part BHHIB, NOTIFICATION BB + data, '
                      'ROUTE-REFRESH HBB, KEEPALIVE empty body (length 19) enforced')
    rep.rule('R14.c', 'capability tables: class constants equal the IANA codes; every capability code the OPEN '
                      'encoder emits has an encoder branch and a decoder branch; unknown codes are kept')
    rep.rule('R14.e', 'address-family names: the table that names a decoded <AFI, SAFI> (AFI_SAFI_DICT, used for ADD-PATH) '
                      'and the table that turns a name into <AFI, SAFI> (AFI_SAFI_STR_DICT) are inverse bijections: no '
                      'family has two names and every decoded name means the family it was decoded from')
    rep.rule('R14.f', 'the true AS survives: Open.construct has no return in front of the statement that adds the 4-octet-AS '
                      'capability (a path that writes AS_TRANS into the 2-octet field without capability 65 loses the AS)')
    rep.rule('R14.d', 'field boundaries: no comparison in the OPEN / NOTIFICATION / KEEPALIVE / ROUTE-REFRESH codecs '
                      'splits a range between 2**k - 2 and 2**k - 1 (AS 65535 is a 2-octet AS)')
    rep.assumptions += ['value equality of the round trip is not decided; AS_TRANS handling is C05 R05.b']

    # ---------------------------------------------------------------- R14.a
    _f, outs = codec.run(prog, OPEN + '.parse', [Opaque('message', 'bytes')], {}, unroll=1, merge=True)
    f = prog.func(OPEN + '.parse')
    nval = 0
    bad = None
    for k, v, s in outs:
        if k != 'val':
            continue
        nval += 1
        good = isinstance(v, Obj) and s.heap[v.oid].kind == 'dict' and \
            {'version', 'asn', 'hold_time', 'bgp_id', 'capabilities'} <= set(s.heap[v.oid].items)
        if not good:
            bad = bad or (v, s)
    if nval == 0:
        rep.undecided('R14.a', 'Open.parse', found='no normal path')
    elif bad:
        v, s = bad
        rep.bad('R14.a', 'Open.parse', file=f.file, line=f.node.lineno, func=f.qualname,
                found='a normal path returns %s (guards: %s)' % (
                    v.desc()[:60], ' & '.join(('%s' if b else 'not %s') % t for t, b, l, q in s.path[-4:])),
                expected='the result dictionary', key='Open.parse')
    else:
        rep.ok('R14.a', 'Open.parse', file=f.file, line=f.node.lineno, found='%d normal path(s)' % nval)
    # acceptance ranges of the fixed fields: the decoder itself restricts version (4) and rejects AS 0 / identifier
    # 0; every hold time 0..65535 decodes (the negotiation, not the codec, refuses 1 and 2)
    hold_iv = []
    for k, v, s in outs:
        for nm, info in s.syminfo.items():
            if info[0] == '!BHHIB' and info[1] == 2:
                lo_, hi_, ne_ = s.interval(nm)
                hold_iv.append((k, lo_, hi_, ne_))
    narrowed = [x for x in hold_iv if (x[1], x[2]) != (0, 65535) or x[3]]
    if not hold_iv:
        rep.undecided('R14.a', 'Open.parse:hold-time-range', found='hold-time field not found in any outcome')
    elif narrowed:
        k, lo_, hi_, ne_ = narrowed[0]
        rep.bad('R14.a', 'Open.parse:hold-time-range', file=f.file, line=f.node.lineno, func=f.qualname,
                found='Open.parse distinguishes hold times: an outcome (%s) is reached only for hold time in [%s, %s]%s; '
                      'every value 0..65535 is a legal field value and must decode' % (
                          'exception' if k == 'raise' else 'result', lo_, hi_,
                          (' except %s' % sorted(ne_)) if ne_ else ''),
                expected='no test of the hold time in the codec', key='Open.parse:hold-time-range')
    else:
        rep.ok('R14.a', 'Open.parse:hold-time-range', file=f.file, line=f.node.lineno,
               found='%d outcome(s), hold time unconstrained in all' % len(hold_iv))
    for qual, n in (('yabgp.message.notification.Notification.parse', 3),
                    ('yabgp.message.route_refresh.RouteRefresh.parse', 3)):
        fn = prog.func(qual)
        _f, outs = codec.run(prog, qual, [Opaque('message', 'bytes')], {})
        ok = [1 for k, v, s in outs if k == 'val' and isinstance(v, TupleV) and len(v.items) == n]
        vals = [1 for k, v, s in outs if k == 'val']
        key = qual.split('.')[-2] + '.parse'
        if vals and len(ok) == len(vals):
            rep.ok('R14.a', key, file=fn.file, line=fn.node.lineno)
        else:
            rep.bad('R14.a', key, file=fn.file, line=fn.node.lineno, func=qual,
                    found='does not return a %d-tuple on every normal path' % n, key=key)

    # ---------------------------------------------------------------- R14.b
    op, oc = prog.func(OPEN + '.parse'), prog.func(OPEN + '.construct')
    pf, cf = formats(op, 'unpack'), formats(oc, 'pack')
    if '!BHHIB' in pf and '!BHHIB' in cf:
        rep.ok('R14.b', 'open-fixed-part', file=op.file, line=op.node.lineno)
    else:
        rep.bad('R14.b', 'open-fixed-part', file=op.file, line=op.node.lineno, func=op.qualname,
                found='fixed part formats: parse %s, construct %s' % ([x for x in pf if len(x) > 4], [x for x in cf if len(x) > 4]),
                expected='!BHHIB both ways', key='open-fixed-part')
    # the fixed part is read from message[:10] and options from message[10:] (bounds folded, so named
    # constants are fine)
    def fold_b(e):
        if e is None:
            return None
        if isinstance(e, ast.Attribute) and isinstance(e.value, ast.Name) and e.value.id in ('self', 'cls'):
            try:
                return prog.class_const(op.cls, e.attr)
            except NotConst:
                return 'unknown'
        v = prog.try_fold(e, op.module, op.cls)
        return v if v is not None else 'unknown'
    fixed_ok = False
    for n in ast.walk(op.node):
        if isinstance(n, ast.Call) and src_of(n.func) == 'struct.unpack' and n.args and \
                isinstance(n.args[0], ast.Constant) and n.args[0].value == '!BHHIB' and len(n.args) > 1:
            a = n.args[1]
            if isinstance(a, ast.Subscript) and isinstance(a.slice, ast.Slice) and src_of(a.value) == 'message' and \
                    fold_b(a.slice.lower) in (None, 0) and fold_b(a.slice.upper) == 10:
                fixed_ok = True
    opt_vals = [n.value for n in ast.walk(op.node) if isinstance(n, ast.Assign) and
                isinstance(n.targets[0], ast.Attribute) and n.targets[0].attr == 'opt_paras'
                and 'message' in src_of(n.value)]
    opt_ok = len(opt_vals) == 1 and isinstance(opt_vals[0], ast.Subscript) and isinstance(opt_vals[0].slice, ast.Slice) \
        and src_of(opt_vals[0].value) == 'message' and fold_b(opt_vals[0].slice.lower) == 10 \
        and opt_vals[0].slice.upper is None
    if fixed_ok and opt_ok:
        rep.ok('R14.b', 'open-offsets', file=op.file, line=op.node.lineno)
    else:
        rep.bad('R14.b', 'open-offsets', file=op.file, line=op.node.lineno, func=op.qualname,
                found='fixed part / optional parameters are not read at offsets 0..10 / 10..', key='open-offsets')
    np_, nc = prog.func('yabgp.message.notification.Notification.parse'), \
        prog.func('yabgp.message.notification.Notification.construct')
    if formats(np_, 'unpack') == ['!BB'] and formats(nc, 'pack') == ['!BB'] and 'message[2:]' in src_of(np_.node):
        rep.ok('R14.b', 'notification', file=np_.file, line=np_.node.lineno)
    else:
        rep.bad('R14.b', 'notification', file=np_.file, line=np_.node.lineno, func=np_.qualname,
                found='parse %s construct %s' % (formats(np_, 'unpack'), formats(nc, 'pack')), expected='!BB + data',
                key='notification')
    # the values given to the encoders reach the wire unchanged on every path
    for qual, names in (('yabgp.message.notification.Notification.construct', ['error', 'suberror']),):
        fn = prog.func(qual)
        _f, outs = codec.run(prog, qual, [Opaque(n_) for n_ in names] + [Opaque('data', 'bytes')], {}, may_raise=False)
        probs = []
        nv = 0
        for k, v, st in outs:
            if k != 'val' or not isinstance(v, BytesV):
                continue
            nv += 1
            items = [p_ for p_ in BL.fields(BL.flatten(v)) if p_[0] == 'field']
            body = items[2:2 + len(names)]       # after the header's length and type
            got = [p_[2].desc() for p_ in body]
            if got != names:
                guards = ' & '.join(('%s' if b else 'not %s') % t for t, b, l, q in st.path[-3:])
                probs.append('a path packs %s where %s were given (%s)' % (got, names, guards or 'unconditional'))
            if not any(p_[0] == 'opq' and getattr(p_[1], 'd', '') == 'data' for p_ in BL.flatten(v)):
                probs.append('the data given is not appended unchanged')
        key = 'fields-unchanged:' + qual.split('.')[-2]
        if probs:
            rep.bad('R14.b', key, file=fn.file, line=fn.node.lineno, func=qual, found=probs[0],
                    expected='code, subcode and data as given', key=key)
        elif nv:
            rep.ok('R14.b', key, file=fn.file, line=fn.node.lineno, found='%d path(s)' % nv)
        else:
            rep.undecided('R14.b', key, file=fn.file, line=fn.node.lineno, found='no symbolic path')
    rp, rc = prog.func('yabgp.message.route_refresh.RouteRefresh.parse'), \
        prog.func('yabgp.message.route_refresh.RouteRefresh.construct')
    cfmt = ''.join(x.lstrip('!') for x in formats(rc, 'pack'))
    pfmt = ''.join(x.lstrip('!') for x in formats(rp, 'unpack'))
    if cfmt == 'HBB' and pfmt == 'HBB':
        rep.ok('R14.b', 'route-refresh', file=rp.file, line=rp.node.lineno)
    else:
        rep.bad('R14.b', 'route-refresh', file=rp.file, line=rp.node.lineno, func=rp.qualname,
                found='parse %s construct %s' % (pfmt, cfmt), expected='HBB both ways', key='route-refresh')
    # field order of RR construct: afi, res, safi
    order = []
    for x in sorted(((n.lineno, n.col_offset, n) for n in ast.walk(rc.node)
                     if isinstance(n, ast.Call) and src_of(n.func) == 'struct.pack' and len(n.args) > 1),
                    key=lambda z: z[:2]):
        order.extend(src_of(a) for a in x[2].args[1:])
    if order == ['self.afi', 'self.res', 'self.safi']:
        rep.ok('R14.b', 'route-refresh-order', file=rc.file, line=rc.node.lineno)
    else:
        rep.bad('R14.b', 'route-refresh-order', file=rc.file, line=rc.node.lineno, func=rc.qualname,
                found='fields packed in the order %s' % order, expected='afi, res, safi', key='route-refresh-order')
    # KEEPALIVE
    kc = 'yabgp.message.keepalive.KeepAlive'
    _f, outs = codec.run(prog, kc + '.construct', [], {})
    kf = prog.func(kc + '.construct')
    good = False
    for k, v, s in outs:
        if k == 'val' and prims.bytes_len(v, s) == (19, 19):
            good = True
    acc = []
    for L in range(0, 6):
        _f, o2 = codec.run(prog, kc + '.parse', [codec.fixbytes(L)], {})
        if any(k == 'val' for k, v, s in o2):
            acc.append(L)
    if good and acc == [0]:
        rep.ok('R14.b', 'keepalive', file=kf.file, line=kf.node.lineno, found='19 octets out, only an empty body accepted')
    else:
        rep.bad('R14.b', 'keepalive', file=kf.file, line=kf.node.lineno, func=kf.qualname,
                found='construct is 19 octets: %s; body lengths accepted: %s' % (good, acc),
                expected='19 octets; body length 0 only', key='keepalive')

    # ---------------------------------------------------------------- R14.c
    cap = prog.cls(CAP)
    for name, code in sorted(IANA_CAPS.items()):
        key = 'iana:%s' % name
        try:
            v = prog.class_const(cap, name)
        except NotConst:
            rep.bad('R14.c', key, file=cap.module.relpath, line=cap.node.lineno, found='constant vanished', key=key)
            continue
        if v == code:
            rep.ok('R14.c', key, file=cap.module.relpath, line=cap.attr_lines.get(name), found=str(v))
        else:
            rep.bad('R14.c', key, file=cap.module.relpath, line=cap.attr_lines.get(name),
                    found='%s = %s' % (name, v), expected=str(code), key=key)
    # codes emitted by Open.construct
    emitted = set()
    for n in ast.walk(oc.node):
        if isinstance(n, ast.Call) and src_of(n.func) == 'Capability':
            for k in n.keywords:
                if k.arg == 'capa_code':
                    v = prog.try_fold(k.value, oc.module, oc.cls)
                    if v is not None:
                        emitted.add(v)
    cc = prog.func(CAP + '.construct')

    def branch_codes(fn, var_suffix):
        out = set()
        for n in ast.walk(fn.node):
            if isinstance(n, ast.Compare) and src_of(n.left).endswith(var_suffix) and \
                    isinstance(n.ops[0], (ast.Eq, ast.In)):
                rhs = n.comparators[0]
                elts = rhs.elts if isinstance(n.ops[0], ast.In) and isinstance(rhs, (ast.Tuple, ast.List, ast.Set)) \
                    else ([rhs] if isinstance(n.ops[0], ast.Eq) else [])
                if isinstance(n.ops[0], ast.In) and not elts:
                    # a table defined elsewhere (module level, another class): whatever it folds to
                    tv = prog.try_fold(rhs, fn.module, fn.cls)
                    if isinstance(tv, (dict, list, tuple, set, frozenset)):
                        out |= set(x for x in tv if isinstance(x, int))
                        continue
                if isinstance(n.ops[0], ast.In) and isinstance(rhs, ast.Attribute) and not elts:
                    # a class-level table of the Capability class: `code in capability.FLAG_KEYS`
                    c0, e0 = cap.find_attr(rhs.attr)
                    if isinstance(e0, ast.Dict):
                        elts = list(e0.keys)
                    elif isinstance(e0, (ast.Tuple, ast.List, ast.Set)):
                        elts = list(e0.elts)
                    for e in elts:
                        v = prog.try_fold(e, c0.module, c0)
                        if v is None and isinstance(e, ast.Name):
                            try:
                                v = prog.class_const(cap, e.id)
                            except NotConst:
                                v = None
                        if v is not None:
                            out.add(v)
                    continue
                for e in elts:
                    v = prog.try_fold(e, fn.module, fn.cls)
                    if v is None and isinstance(e, ast.Attribute):
                        try:
                            v = prog.class_const(cap, e.attr)
                        except NotConst:
                            v = None
                    if v is not None:
                        out.add(v)
        return out
    enc = branch_codes(cc, 'capa_code')
    dec = set()
    ocls = prog.cls(OPEN)
    for meth in ocls.methods.values():
        dec |= branch_codes(meth, 'capa_code')
        # presence-only capabilities may be dispatched through a dictionary keyed by the code constants
        for n in ast.walk(meth.node):
            if isinstance(n, ast.Dict):
                for k in n.keys:
                    if isinstance(k, ast.Attribute) and k.attr.isupper():
                        try:
                            dec.add(prog.class_const(cap, k.attr))
                        except NotConst:
                            pass
    rep.floor('R14.c', 'capability codes emitted', len(emitted), 7)
    for code in sorted(emitted):
        key = 'cap-code:%d' % code
        probs = []
        if code not in enc:
            probs.append('Capability.construct has no branch for it (returns None)')
        if code not in dec:
            probs.append('Open.parse has no branch for it')
        if probs:
            rep.bad('R14.c', key, file=oc.file, line=oc.node.lineno, func=oc.qualname,
                    found='capability %d is emitted by Open.construct but %s' % (code, '; '.join(probs)), key=key)
        else:
            rep.ok('R14.c', key, file=oc.file, line=oc.node.lineno)
    # several capability TLVs of one code (one per AFI/SAFI is a legal packaging) must add up
    from .c15 import capability_overwrites
    f2, outs2 = capability_overwrites(prog)
    for k, line in outs2:
        key = 'cap-overwrite:%s' % k
        rep.bad('R14.c', key, file=f2.file, line=line, func=f2.qualname,
                found='capa_dict[%s] is (re)created for every capability TLV of that code: with one TLV per '
                      'AFI/SAFI only the last one survives' % k, expected='accumulate', key=key)
    # the OPEN built carries its own optional-parameter length (an Open object may be constructed twice, or after
    # parse): Opt Parm Len = size of what this call appends
    from .c08 import run_construct, open_optlen
    qo_ = OPEN + '.construct'
    fo_ = prog.func(qo_)
    outs_o = None
    for depth_, budget_ in ((2, 15000), (1, 40000)):
        try:
            outs_o = run_construct(prog, fo_, depth_, budget_)
            break
        except AnalysisError:
            continue
    if outs_o is None:
        rep.undecided('R14.b', 'open-optlen', file=fo_.file, line=fo_.node.lineno, found='path budget exceeded')
    else:
        open_optlen(rep, 'R14.b', qo_, fo_, outs_o)
    # record loops of the OPEN decoder advance by the size of the record they just read, not by a running counter
    from .c15 import counter_in_advance, cursor_names
    opf = prog.func(OPEN + '.parse')
    nl_ = 0
    for i_, w_ in enumerate(sorted([n for n in ast.walk(opf.node) if isinstance(n, ast.While)], key=lambda n: n.lineno)):
        nl_ += 1
        cur_ = cursor_names(w_) | {src_of(n.targets[0]) for n in ast.walk(w_) if isinstance(n, ast.Assign)
                                   and isinstance(n.value, ast.Subscript) and isinstance(n.value.slice, ast.Slice)
                                   and src_of(n.value.value) == src_of(n.targets[0])}
        pr = counter_in_advance(w_, cur_)
        key = 'record-stride:Open.parse#%d' % i_
        if pr:
            rep.bad('R14.a', key, file=opf.file, line=w_.lineno, func=opf.qualname, found=pr,
                    expected='advance by the size of the record read', key=key)
        else:
            rep.ok('R14.a', key, file=opf.file, line=w_.lineno, nontrivial=False)
    rep.floor('R14.a', 'Open.parse loops', nl_, 4)
    common.report_signed_formats(prog, rep, 'R14.b', lambda fn: fn.module.name in (
        'yabgp.message.open', 'yabgp.message.notification', 'yabgp.message.keepalive', 'yabgp.message.route_refresh'), 15)
    common.report_boundary_splits(prog, rep, 'R14.d', lambda fn: fn.module.name in (
        'yabgp.message.open', 'yabgp.message.notification', 'yabgp.message.keepalive', 'yabgp.message.route_refresh'))
    family_names(prog, rep)
    common.recombination_shifts(prog, rep, 'R14.b', lambda fn: fn.module.name in (
        'yabgp.message.open', 'yabgp.message.notification', 'yabgp.message.keepalive', 'yabgp.message.route_refresh'))
    no_return_before_as4(prog, rep)
    # the capability dispatch is total over the codes 0..255 (finite partition)
    cap_dispatch_total(prog, rep, ocls)
    # unknown-code fallback in Open.parse
    fb = False
    for meth in ocls.methods.values():
        for n in ast.walk(meth.node):
            if isinstance(n, ast.Assign) and isinstance(n.targets[0], ast.Subscript) and \
                    'str(capability.capa_code)' in src_of(n.targets[0]):
                fb = True
    if fb:
        rep.ok('R14.c', 'cap-unknown-kept', file=op.file, line=op.node.lineno)
    else:
        rep.bad('R14.c', 'cap-unknown-kept', file=op.file, line=op.node.lineno, func=op.qualname,
                found='unknown capability codes are not kept in the result', key='cap-unknown-kept')


def cap_dispatch_total(prog, rep, ocls):
    """Every capability code 0..255 is recorded: the if-chain on capa_code ends in an unconditional
    else, or every code provably matches one of its tests."""
    capcls = prog.cls('yabgp.message.open.Capability')
    chains = []
    for meth in ocls.methods.values():
        ifs = [n for n in ast.walk(meth.node) if isinstance(n, ast.If) and 'capa_code' in src_of(n.test)]
        inner = set()
        for n in ifs:
            if len(n.orelse) == 1 and isinstance(n.orelse[0], ast.If) and n.orelse[0] in ifs:
                inner.add(n.orelse[0])
        for n in ifs:
            if n not in inner:
                tests = []
                cur = n
                while True:
                    tests.append(cur.test)
                    if len(cur.orelse) == 1 and isinstance(cur.orelse[0], ast.If) and cur.orelse[0] in ifs:
                        cur = cur.orelse[0]
                        continue
                    break
                chains.append((meth, n, tests, cur.orelse))
    chains = [c for c in chains if len(c[2]) >= 4]
    if not chains:
        rep.undecided('R14.c', 'cap-dispatch-total', found='no if-chain on capa_code found in the Open class')
        return
    meth, head, tests, final = max(chains, key=lambda c: len(c[2]))

    def const_of(e):
        if isinstance(e, ast.Attribute) and isinstance(e.value, ast.Name) and not e.attr.startswith('capa_'):
            c0, e0 = capcls.find_attr(e.attr)
            if e0 is None:
                return None
            v = prog.try_fold(e0, c0.module, c0)
            if v is None and isinstance(e0, ast.Call) and src_of(e0.func) == 'range':
                a = [prog.try_fold(x, c0.module, c0) for x in e0.args]
                if all(isinstance(x, int) for x in a):
                    return range(*a)
            return v
        if isinstance(e, ast.Name):
            for st in ast.walk(meth.node):
                if isinstance(st, ast.Assign) and any(isinstance(t, ast.Name) and t.id == e.id for t in st.targets):
                    if isinstance(st.value, ast.Dict):
                        ks = [const_of(k) for k in st.value.keys]
                        return None if any(k is None for k in ks) else set(ks)
                    return const_of(st.value)
            return None
        if isinstance(e, (ast.Tuple, ast.List, ast.Set)):
            ks = [const_of(k) for k in e.elts]
            return None if any(k is None for k in ks) else set(ks)
        return prog.try_fold(e, meth.module, meth.cls)

    def ev(t, c):
        if isinstance(t, ast.BoolOp):
            vs = [ev(x, c) for x in t.values]
            if isinstance(t.op, ast.Or):
                return True if any(v is True for v in vs) else (False if all(v is False for v in vs) else None)
            return False if any(v is False for v in vs) else (True if all(v is True for v in vs) else None)
        if isinstance(t, ast.UnaryOp) and isinstance(t.op, ast.Not):
            v = ev(t.operand, c)
            return None if v is None else (not v)
        if isinstance(t, ast.Compare) and len(t.ops) == 1 and src_of(t.left).endswith('capa_code'):
            r = const_of(t.comparators[0])
            if r is None:
                return None
            op = t.ops[0]
            try:
                if isinstance(op, ast.Eq):
                    return c == r
                if isinstance(op, ast.NotEq):
                    return c != r
                if isinstance(op, ast.In):
                    return c in r
                if isinstance(op, ast.NotIn):
                    return c not in r
                if isinstance(op, ast.Lt):
                    return c < r
                if isinstance(op, ast.LtE):
                    return c <= r
                if isinstance(op, ast.Gt):
                    return c > r
                if isinstance(op, ast.GtE):
                    return c >= r
            except TypeError:
                return None
        return None
    if final:
        rep.ok('R14.c', 'cap-dispatch-total', file=meth.file, line=head.lineno,
               found='%d tests and an unconditional else' % len(tests))
        return
    dropped = [c for c in range(256) if not any(ev(t, c) is True for t in tests)]
    if dropped:
        rep.bad('R14.c', 'cap-dispatch-total', file=meth.file, line=head.lineno, func=meth.qualname,
                found='the dispatch on capa_code has no unconditional else and no test is certain to hold for '
                      'the code(s) %s%s: such a capability vanishes from the decoded set' % (
                          dropped[:12], ' ...' if len(dropped) > 12 else ''),
                expected='every code 0..255 is recorded', key='cap-dispatch-total')
    else:
        rep.ok('R14.c', 'cap-dispatch-total', file=meth.file, line=head.lineno, found='256 codes matched')


def family_names(prog, rep, rule='R14.e'):
    cm = prog.modules['yabgp.common.constants']
    line = getattr(cm.assigns.get('AFI_SAFI_DICT'), 'lineno', None)
    try:
        dec = prog.fold(cm.assigns['AFI_SAFI_DICT'], cm)
        enc = prog.fold(cm.assigns['AFI_SAFI_STR_DICT'], cm)
    except Exception as e:
        rep.undecided(rule, 'family-names', file=cm.relpath, line=line, found='tables not foldable: %s' % e)
        return
    if not isinstance(dec, dict) or not isinstance(enc, dict):
        rep.undecided(rule, 'family-names', file=cm.relpath, line=line, found='tables are not dictionaries')
        return
    by_fam = {}
    for name, fam in enc.items():
        by_fam.setdefault(tuple(fam) if isinstance(fam, (list, tuple)) else fam, []).append(name)
    n = 0
    for fam in sorted(set(dec) | set(by_fam), key=repr):
        key = 'family-name:%s' % (fam,)
        names = by_fam.get(fam, [])
        got = dec.get(fam)
        if len(names) > 1:
            rep.bad(rule, key, file=cm.relpath, line=line,
                    found='family %s has %d names in AFI_SAFI_STR_DICT (%s); a decoded OPEN names it %r, the other '
                          'name(s) never come back' % (fam, len(names), ', '.join(sorted(names)), got),
                    expected='one name per family', key=key)
        elif got is not None and enc.get(got) is not None and tuple(enc[got]) != fam:
            rep.bad(rule, key, file=cm.relpath, line=line,
                    found='a decoded %s is named %r, and that name means %s' % (fam, got, enc[got]),
                    expected='name tables inverse to each other', key=key)
        elif got is not None and names and got != names[0]:
            rep.bad(rule, key, file=cm.relpath, line=line,
                    found='a decoded %s is named %r but the configuration name of that family is %r' % (
                        fam, got, names[0]), expected='name tables inverse to each other', key=key)
        else:
            n += 1
            rep.ok(rule, key, file=cm.relpath, line=line, found='%r' % (got if got is not None else names[:1]))
    rep.floor(rule, 'address families named', n, 12)



def no_return_before_as4(prog, rep):
    f = prog.func('yabgp.message.open.Open.construct')
    idx = None
    for i, st in enumerate(f.node.body):
        for n in ast.walk(st):
            if isinstance(n, ast.Call) and src_of(n.func) == 'Capability' and any(
                    k.arg == 'capa_code' and prog.try_fold(k.value, f.module, f.cls) == 65 for k in n.keywords):
                idx = i if idx is None else idx
    key = 'as4-before-return'
    if idx is None:
        rep.undecided('R14.f', key, file=f.file, line=f.node.lineno, found='no Capability(capa_code=65) in Open.construct')
        return
    early = [n for st in f.node.body[:idx] for n in ast.walk(st) if isinstance(n, ast.Return)]
    if early:
        rep.bad('R14.f', key, file=f.file, line=early[0].lineno, func=f.qualname,
                found='Open.construct returns at line %d, before the 4-octet-AS capability is added (line %d): an AS '
                      'above 65535 goes out as AS_TRANS with no capability 65 and decodes as 23456' % (
                          early[0].lineno, f.node.body[idx].lineno),
                expected='every path passes the capability-65 decision', key=key)
    else:
        rep.ok('R14.f', key, file=f.file, line=f.node.body[idx].lineno)
