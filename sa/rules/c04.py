"""C04 - byte-stream framing (structural part)."""
import ast

from ..front import AnalysisError, src_of
from ..values import Const, Sym, Opaque, Obj, INF
from ..prims import SliceV
from ..table import ORDER
from ..session import cval, BGP_Q
from . import common

PROTO = 'yabgp/core/protocol.py'


def check(prog, rep, tier):
    rep.rule('R04.a', 'buffer discipline: the receive buffer is written only by the constructor, by '
                      'dataReceived (append of the received chunk) and by parse_buffer; dataReceived '
                      'loops on parse_buffer')
    rep.rule('R04.b', 'exact consumption: an incomplete message changes nothing and returns False; a '
                      'dispatched message consumes exactly the header-declared length once, its body is '
                      'buf[19:length], and parse_buffer returns True')
    rep.rule('R04.c', 'stop at a framing violation: after a header error parse_buffer returns False and '
                      'dispatches nothing')
    rep.rule('R04.d', 'validation constants: the set of header lengths accepted is exactly [19, 4096], the '
                      'type codes dispatched are exactly {1,2,3,4,5,128}')
    rep.rule('R04.e', 'progress: every path that returns True consumes at least one octet')
    rep.rule('R04.f', 'a framing violation (bad marker, length outside [19,4096], unknown type) is answered in every '
                      'state but Idle with exactly one NOTIFICATION (1, 1|2|3), a close and Idle')
    rep.assumptions += ['equality with a reference deframer on concrete streams is an argument from '
                        'R04.a-e, not an enumeration of streams', 'CPU time beyond termination is not decided']
    facts = common.env_facts(prog)
    tab = common.get_table(prog, dot_dead=facts['dot_dead'])
    bgp = prog.cls(BGP_Q)

    # ---------------------------------------------------------------- R04.a
    allowed = {'__init__', 'dataReceived', 'parse_buffer'}
    nst = 0
    for f, tgt, val, st in common.attr_stores(prog, '_receive_buffer'):
        nst += 1
        key = 'writer:%s' % f.qualname
        if f.cls is bgp and f.name in allowed:
            rep.ok('R04.a', key, file=f.file, line=st.lineno, found=src_of(st))
        else:
            rep.bad('R04.a', key, file=f.file, line=st.lineno, func=f.qualname, found=src_of(st),
                    expected='written only by __init__/dataReceived/parse_buffer', key=key)
    rep.floor('R04.a', 'buffer stores', nst, 3)
    dr = bgp.find_method('dataReceived')
    if dr is None:
        raise AnalysisError('BGP.dataReceived vanished')
    param = dr.params[1] if len(dr.params) > 1 else None
    probs = []
    appends = 0
    for st in ast.walk(dr.node):
        if isinstance(st, ast.AugAssign) and isinstance(st.target, ast.Attribute) and \
                st.target.attr == '_receive_buffer':
            if isinstance(st.op, ast.Add) and isinstance(st.value, ast.Name) and st.value.id == param:
                appends += 1
            else:
                probs.append('buffer update %s is not an append of the chunk' % src_of(st))
        elif isinstance(st, ast.Assign) and any(isinstance(t, ast.Attribute) and t.attr == '_receive_buffer'
                                                for t in st.targets):
            if src_of(st.value) in ('self._receive_buffer + %s' % param,):
                appends += 1
            else:
                probs.append('buffer update %s is not an append of the chunk' % src_of(st))
    if appends != 1:
        probs.append('%d append(s) of the chunk, expected 1' % appends)
    def drives(w):
        """(is a loop driven by parse_buffer's result, break statements that are the driven exit)"""
        if 'parse_buffer' in src_of(w.test):
            return True, []
        if isinstance(w.test, ast.Name):
            asg = [x for x in ast.walk(ast.Module(body=w.body, type_ignores=[])) if isinstance(x, ast.Assign)
                   and any(isinstance(t, ast.Name) and t.id == w.test.id for t in x.targets)]
            if asg and all(src_of(x.value) == 'self.parse_buffer()' for x in asg):
                return True, []
        if isinstance(w.test, ast.Constant) and w.test.value is True:
            exits = [x for x in w.body if isinstance(x, ast.If) and src_of(x.test) == 'not self.parse_buffer()'
                     and len(x.body) == 1 and isinstance(x.body[0], ast.Break) and not x.orelse]
            if exits:
                return True, [x.body[0] for x in exits]
        return False, []
    loops = []
    allowed_breaks = []
    for n in ast.walk(dr.node):
        if isinstance(n, ast.While):
            d, br = drives(n)
            if d:
                loops.append(n)
                allowed_breaks += br
    if not loops:
        probs.append('no loop on parse_buffer()')
    else:
        lp = loops[0]
        for n in ast.walk(ast.Module(body=lp.body, type_ignores=[])):
            if isinstance(n, (ast.Break, ast.Return)) and n not in allowed_breaks:
                probs.append('loop on parse_buffer() can be left before parse_buffer returns False')
    # the loop on parse_buffer() is reached unconditionally and is not bounded by anything but
    # parse_buffer's own result
    par_dr = {}
    for n in ast.walk(dr.node):
        for c in ast.iter_child_nodes(n):
            par_dr[c] = n
    for n in ast.walk(dr.node):
        if isinstance(n, ast.Return):
            probs.append('dataReceived can return before the parse loop (line %d)' % n.lineno)
        if isinstance(n, ast.For) and 'parse_buffer' in ' '.join(src_of(b) for b in n.body):
            probs.append('parse_buffer() is called from a bounded for-loop: messages left in the buffer wait '
                         'for the next segment')
    for lp in loops[:1]:
        cur = lp
        while cur in par_dr and cur is not dr.node:
            cur = par_dr[cur]
            if isinstance(cur, (ast.If, ast.For, ast.While, ast.Try)):
                probs.append('the parse loop is nested in a %s' % type(cur).__name__)
    # memory: besides the buffer no attribute of self is both written and read by the deframer
    pbf = bgp.find_method('parse_buffer')
    written, read = {}, set()
    for fn in (dr, pbf):
        for n in ast.walk(fn.node):
            if isinstance(n, ast.Attribute) and isinstance(n.value, ast.Name) and n.value.id == 'self':
                if isinstance(n.ctx, ast.Store):
                    written[n.attr] = (fn, n.lineno)
                elif isinstance(n.ctx, ast.Load):
                    read.add(n.attr)
    for a, (fn, line) in sorted(written.items()):
        if a != '_receive_buffer' and a in read:
            probs.append('%s keeps extra state in self.%s (line %d): what is extracted then depends on how the '
                         'stream was segmented, not only on the bytes' % (fn.name, a, line))
    if probs:
        rep.bad('R04.a', 'dataReceived', file=dr.file, line=dr.node.lineno, func=dr.qualname,
                found='; '.join(probs), expected='buffer += chunk; while parse_buffer(): pass',
                key='dataReceived')
    else:
        rep.ok('R04.a', 'dataReceived', file=dr.file, line=dr.node.lineno)

    # ---------------------------------------------------------------- rows
    acc_lo, acc_hi = INF, -INF
    types = set()
    seen = {}

    def put(rule, name, ok, r, found=None, expected=None):
        if ok:
            if name not in seen:
                seen[name] = 'ok'
                rep.ok(rule, name, file=PROTO, line=common.row_line(r))
        elif seen.get(name) != 'bad':
            seen[name] = 'bad'
            rep.bad(rule, name, file=PROTO, line=common.row_line(r), func='BGP.parse_buffer',
                    found=found, expected=expected, key=name, path=r.describe())

    nrows = 0
    for state in ORDER:
        for r in tab.get('WIRE', state):
            nrows += 1
            cls = r.wire['cls']
            ret = cval(r.val)
            bw = [w for w in r.st.writes if w[1] == '_receive_buffer']
            if r.kind == 'raise':
                put('R04.c', 'raise@%s' % state, False, r, 'exception escapes parse_buffer', 'no exception')
                continue
            if cls in ('SHORT', 'INCOMPLETE'):
                eff = [e for e in r.events if e[0] in ('write', 'close', 'fsm', 'handler', 'timer')]
                ok = ret is False and not bw and not eff
                put('R04.b', 'incomplete@%s' % state, ok, r,
                    'returns %r, buffer writes %d, effects %s' % (ret, len(bw), [e[:2] for e in eff]),
                    'return False, nothing changed')
                continue
            if cls in ('BAD_MARKER', 'BAD_LEN', 'UNKNOWN_TYPE'):
                from .. import profile as P
                sub = {'BAD_MARKER': 1, 'BAD_LEN': 2, 'UNKNOWN_TYPE': 3}[cls]
                okp, probs, alt = P.evaluate(P.hdr_cell(1, sub, state), r)
                put('R04.f', 'reaction:%s@%s' % (cls, state), okp, r, '; '.join(probs), alt)
                idx = [i for i, e in enumerate(r.events) if e[0] == 'fsm' and e[1] == 'header_error']
                after = [e for e in (r.events[idx[0] + 1:] if idx else [])
                         if e[0] == 'bgp' and e[1].endswith('_received')]
                ok = ret is False and not after
                put('R04.c', '%s@%s' % (cls, state), ok, r,
                    'returns %r after the header error%s' % (ret, ', then dispatches %s' % [e[1] for e in after] if after else ''),
                    'return False, nothing dispatched')
                continue
            if cls == 'OPEN' and any(f_.startswith('short-unpack@') and f_.endswith('Open.parse') for f_ in r.flags) \
                    and not any(i_[0] == '!BHHIB' for i_ in r.st.syminfo.values()):
                # a type-1 message too short for the fixed part of an OPEN: a framing (length) error, RFC 4271 6.1
                from .. import profile as P
                okp, probs, alt = P.evaluate(P.hdr_cell(1, 2, state), r)
                put('R04.f', 'reaction:SHORT_OPEN@%s' % state, okp, r, '; '.join(probs), alt)
                continue
            if cls in ('AMBIGUOUS', 'AMBIGUOUS_LEN'):
                put('R04.d', 'ambiguous@%s' % state, False, r,
                    'a path is neither rejected nor within [19,4096] / a known type: len %s type %s' % (
                        r.wire.get('len'), r.wire.get('type')), 'a decided class')
                continue
            # a dispatched message
            lo, hi = r.wire['len']
            if ret is True:
                acc_lo, acc_hi = min(acc_lo, lo), max(acc_hi, hi)
                types.add(r.wire.get('type_code'))
                good = False
                why = '%d buffer writes' % len(bw)
                if len(bw) == 1:
                    v = bw[0][2]
                    if isinstance(v, SliceV) and isinstance(v.lo, Sym) and \
                            (v.hi is None or (isinstance(v.hi, Const) and v.hi.value is None)):
                        info = r.st.syminfo.get(v.lo.name)
                        if info and info[0] == '!16sHB' and info[1] == 1 and v.base.desc() == 'buf':
                            good = True
                            slo = r.st.interval(v.lo.name)[0]
                            put('R04.e', 'progress:%s@%s' % (cls, state), slo >= 1, r,
                                'consumes %s octets' % slo, '>= 1 octet')
                        else:
                            why = 'consumes %s, not the header length field' % v.desc()
                    else:
                        why = 'buffer := %s' % cval(v)
                put('R04.b', 'consume:%s@%s' % (cls, state), good, r, why,
                    '_receive_buffer = _receive_buffer[length:] exactly once')
                # body window
                for a in r.actions:
                    if a.kind == 'enter' and a.meth.startswith(BGP_Q + '._') and a.meth.endswith('_received'):
                        m = a.kwargs.get('msg')
                        if m is None:
                            continue
                        okw = isinstance(m, SliceV) and isinstance(m.lo, Const) and m.lo.value == 19 and \
                            isinstance(m.hi, Sym) and r.st.syminfo.get(m.hi.name, (None,))[0] == '!16sHB' \
                            and m.base.desc() == 'buf'
                        if okw or not isinstance(m, SliceV):
                            put('R04.b', 'body:%s@%s' % (cls, state), True, r)
                        else:
                            put('R04.b', 'body:%s@%s' % (cls, state), False, r,
                                'message body is %s' % m.desc(), 'buf[19:length]')
            else:
                # a message whose handler raised a header error (KEEPALIVE with body, short OPEN)
                first = [e for e in r.events if e[0] == 'fsm']
                ok = ret is False and first and first[0][1] in ('header_error', 'open_message_error')
                put('R04.c', 'rejected:%s@%s' % (cls, state), ok, r,
                    'returns %r with FSM events %s' % (ret, [e[1] for e in first][:3]),
                    'False only after an error event')
    rep.floor('R04.b', 'parse_buffer paths', nrows, 300)
    if (acc_lo, acc_hi) == (19, 4096):
        rep.ok('R04.d', 'accepted-lengths', file=PROTO, found='[19, 4096]')
    else:
        rep.bad('R04.d', 'accepted-lengths', file=PROTO, func='BGP.parse_buffer',
                found='lengths accepted for dispatch: [%s, %s]' % (acc_lo, acc_hi), expected='[19, 4096]',
                key='accepted-lengths')
    if types == {1, 2, 3, 4, 5, 128}:
        rep.ok('R04.d', 'type-codes', file=PROTO, found=sorted(types))
    else:
        rep.bad('R04.d', 'type-codes', file=PROTO, func='BGP.parse_buffer',
                found='type codes dispatched: %s' % sorted(t for t in types if t is not None),
                expected='{1,2,3,4,5,128}', key='type-codes')
