"""C18 - message statistics equal what crossed the wire (structural part)."""
import ast

from ..front import AnalysisError, src_of
from ..values import Const, Sym, Opaque, Obj
from ..table import ORDER
from ..session import cval, BGP_Q
from . import common

PROTO = 'yabgp/core/protocol.py'
SEND_KEY = {'send_open': 'Opens', 'send_keepalive': 'Keepalives', 'send_notification': 'Notifications',
            'send_update': 'Updates', 'send_bin_update': 'Updates', 'send_route_refresh': 'RouteRefresh',
            'write_tcp_thread': 'Updates'}
RECV_KEY = {'OPEN': 'Opens', 'UPDATE': 'Updates', 'NOTIFICATION': 'Notifications', 'KEEPALIVE': 'Keepalives',
            'ROUTEREFRESH': 'RouteRefresh'}
SHORT_FN = {'OPEN': 'Open.parse', 'NOTIFICATION': 'Notification.parse', 'ROUTEREFRESH': 'RouteRefresh.parse'}


def stat(st, poid, which):
    v = st.heap[poid].fields.get(which)
    if not isinstance(v, Obj):
        return None
    h = st.heap[v.oid]
    out = {}
    for k, x in h.items.items():
        out[k] = x.value if isinstance(x, Const) else x.desc()
    return out


def check(prog, rep, tier):
    rep.rule('R18.a', 'send pairing: on every path of every BGP.send_* method the increment of the matching '
                      'sent counter equals the number of transport writes (0 or 1), no other counter moves')
    rep.rule('R18.b', 'receive pairing: on every dispatch path of a message of type T the matching received '
                      'counter moves by exactly 1 when the frame has at least the minimum length of T, by 0 '
                      'when it is shorter; no other counter moves')
    rep.rule('R18.c', 'who-may-write: the two counter dictionaries are written only by the BGP protocol '
                      'methods; the REST statistic view returns the dictionaries of the tracked protocol')
    rep.rule('R18.e', 'counted implies written: the Data argument of every send_notification call in the reaction table '
                      'is a byte string, so the constructor cannot raise between the counter increment and the write')
    rep.rule('R18.g', 'a received UPDATE frame is always counted: Update.parse cannot raise (everything after the length reads is '
                      'inside its exception funnel), so _update_received always reaches the counter (rule shared with C11 R11.d)')
    rep.rule('R18.f', 'received UPDATEs are counted: the per-family bookkeeping that _update_received runs before the '
                      'counter increment cannot raise on a decoded flowspec route - where its family test is live (same '
                      'sequence kind as the decoder yields) the integer component keys are not concatenated to text '
                      'without str()')
    rep.rule('R18.d', 'on every path of every event (timers, operator, connection, wire) sent counters move '
                      'by exactly the number of messages written, per type')
    rep.assumptions += ['counts inside abstracted loops (internal queue drain in _keepalive_received) are seen for one iteration']
    facts = common.env_facts(prog)
    tab = common.get_table(prog, dot_dead=facts['dot_dead'])
    m = tab.model
    bgp = prog.cls(BGP_Q)

    # the counter dictionaries are per-connection state created by BGP.__init__
    init = bgp.find_method('__init__')
    made = set()
    for n in ast.walk(init.node):
        if isinstance(n, ast.Assign) and isinstance(n.targets[0], ast.Attribute) and \
                src_of(n.targets[0].value) == 'self' and isinstance(n.value, ast.Dict):
            made.add(n.targets[0].attr)
    missing = [a for a in ('msg_sent_stat', 'msg_recv_stat') if a not in made]
    if missing:
        rep.bad('R18.c', 'per-connection-counters', file=bgp.module.relpath, line=bgp.node.lineno, func=init.qualname,
                found='%s is not created in BGP.__init__: the dictionary is shared by all protocol instances of a '
                      'peering, so a new connection reports the totals of the old ones' % ', '.join(missing),
                expected='self.msg_*_stat = {...} in __init__ (one per connection)', key='per-connection-counters')
        for r_ in ('R18.a', 'R18.b', 'R18.d'):
            rep.ok(r_, 'skipped', nontrivial=False, found='not evaluated: counters are not instance state')
        return
    rep.ok('R18.c', 'per-connection-counters', file=init.file, line=init.node.lineno)

    # ---------------------------------------------------------------- R18.a
    sends = sorted(n for n in bgp.methods if n.startswith('send_'))
    if len(sends) < 5:
        raise AnalysisError('fewer than 5 BGP.send_* methods found')
    for name in sends:
        f = bgp.methods[name]
        key = SEND_KEY.get(name)
        if key is None:
            rep.undecided('R18.a', name, found='send method outside the vocabulary')
            continue
        nargs = len(f.params) - 1
        npaths = 0
        bad = None
        for poid, st in m.setup('Established', 'live'):
            before = stat(st, poid, 'msg_sent_stat')
            args = [Opaque('arg%d' % i) for i in range(nargs)]
            for k, v, s in m.run_method(st, poid, name, args):
                npaths += 1
                after = stat(s, poid, 'msg_sent_stat')
                writes = sum(1 for a in s.actions if a.kind == 'call' and a.meth == 'write'
                             and a.target.startswith('transport'))
                delta = {kk: (after[kk] - before[kk]) if isinstance(after.get(kk), int) else after.get(kk)
                         for kk in before}
                want = {kk: (writes if kk == key else 0) for kk in before}
                if delta != want and bad is None:
                    bad = (delta, writes, s)
        nm = 'BGP.%s' % name
        if bad:
            delta, writes, s = bad
            rep.bad('R18.a', nm, file=f.file, line=f.node.lineno, func=f.qualname,
                    found='a path writes %d message(s) to the transport but the sent counters move by %s'
                          % (writes, {k: v for k, v in delta.items() if v}),
                    expected="msg_sent_stat['%s'] += 1 per message written" % key, key=nm)
        else:
            rep.ok('R18.a', nm, file=f.file, line=f.node.lineno, found='%d path(s)' % npaths)

    # the NOTIFICATION counter moves before the message is built: the count equals the writes only when the
    # constructor cannot raise in between, i.e. when the Data handed over is a byte string at every call
    from .c10 import notification_data_rule
    notification_data_rule(tab, rep, 'R18.e', consequence='send_notification has already counted the NOTIFICATION when '
                           'Notification.construct raises TypeError on it, so a message is counted that never reaches '
                           'the wire')

    # ---------------------------------------------------------------- R18.g
    from .c11 import update_parse_funnel
    update_parse_funnel(prog, rep, 'R18.g')

    # ---------------------------------------------------------------- R18.f
    receive_bookkeeping_cannot_raise(prog, rep, bgp)

    # ---------------------------------------------------------------- R18.b / R18.d on the table
    seen = {}
    base_recv = base_sent = None
    for poid, st in m.setup('Established', 'live'):
        base_recv = stat(st, poid, 'msg_recv_stat')
        base_sent = stat(st, poid, 'msg_sent_stat')
    kinds_key = {'open': 'Opens', 'keepalive': 'Keepalives', 'notification': 'Notifications',
                 'update': 'Updates', 'route_refresh': 'RouteRefresh'}
    nrows = 0
    for (ev, state), rows in sorted(tab.rows.items()):
        if ev == 'T_delay_open' and facts['dot_dead']:
            continue
        for r in rows:
            if r.poid is None or r.kind == 'raise':
                continue
            nrows += 1
            # R18.d
            after = stat(r.st, r.poid, 'msg_sent_stat')
            if after is not None and ev != 'TCP_UP2':
                want = {k: 0 for k in base_sent}
                for s_ in r.sends():
                    k = kinds_key.get(s_[0])
                    if k:
                        want[k] += 1
                delta = {k: (after[k] - base_sent[k]) if isinstance(after.get(k), int) else after.get(k)
                         for k in base_sent}
                name = 'sent:%s@%s' % (ev if ev != 'WIRE' else 'WIRE:' + r.wire['cls'], state)
                if delta != want:
                    if seen.get(name) != 'bad':
                        seen[name] = 'bad'
                        rep.bad('R18.d', name, file=common.row_file(r), line=common.row_line(r),
                                func=common.row_func(r),
                                found='messages written %s but sent counters move by %s' % (
                                    {k: v for k, v in want.items() if v}, {k: v for k, v in delta.items() if v}),
                                expected='equal', key=name, path=r.describe())
                elif name not in seen and any(want.values()):
                    seen[name] = 'ok'
                    rep.ok('R18.d', name, file=common.row_file(r), line=common.row_line(r))
            if ev != 'WIRE':
                continue
            cls = r.wire['cls']
            after = stat(r.st, r.poid, 'msg_recv_stat')
            delta = {k: (after[k] - base_recv[k]) if isinstance(after.get(k), int) else after.get(k)
                     for k in base_recv}
            name = 'recv:%s' % cls
            if cls in RECV_KEY:
                key = RECV_KEY[cls]
                short = cls in SHORT_FN and any(
                    f_.startswith('short-unpack@') and f_.endswith(SHORT_FN[cls]) for f_ in r.flags) and \
                    is_first_unpack_short(r, cls)
                if cls == 'UPDATE' and any(f_.startswith('opaque-raise@') and f_.endswith('Update.parse')
                                           for f_ in r.flags):
                    short = True        # Update.parse raised: only bodies shorter than the two length fields
                want = {k: (1 if (k == key and not short) else 0) for k in base_recv}
                tag = name + (':short' if short else '')
            else:
                want = {k: 0 for k in base_recv}
                tag = name
            if delta != want:
                if seen.get(tag) != 'bad':
                    seen[tag] = 'bad'
                    rep.bad('R18.b', tag, file=common.row_file(r), line=common.row_line(r),
                            func=common.row_func(r),
                            found='in %s received counters move by %s' % (state, {k: v for k, v in delta.items() if v} or '{}'),
                            expected='%s' % ({k: v for k, v in want.items() if v} or 'no change'),
                            key=tag, path=r.describe())
            elif tag not in seen:
                seen[tag] = 'ok'
                rep.ok('R18.b', tag, file=PROTO, line=common.row_line(r))
    rep.floor('R18.b', 'paths evaluated', nrows, 1000)

    # ---------------------------------------------------------------- R18.c
    for attr in ('msg_sent_stat', 'msg_recv_stat'):
        n = 0
        for f in prog.all_functions():
            for node in ast.walk(f.node):
                tgt = None
                if isinstance(node, ast.AugAssign):
                    tgt = node.target
                elif isinstance(node, ast.Assign):
                    tgt = node.targets[0]
                if tgt is None:
                    continue
                base = tgt.value if isinstance(tgt, ast.Subscript) else tgt
                if isinstance(base, ast.Attribute) and base.attr == attr:
                    n += 1
                    key = 'writer:%s:%s' % (attr, f.qualname)
                    if f.cls is bgp:
                        if not any(i.key == key for i in rep.instances):
                            rep.ok('R18.c', key, file=f.file, line=node.lineno)
                    else:
                        rep.bad('R18.c', key, file=f.file, line=node.lineno, func=f.qualname,
                                found=src_of(node), expected='counters written only by BGP methods', key=key)
        rep.floor('R18.c', '%s stores' % attr, n, 5)
    f = prog.func('yabgp.api.utils.get_peer_msg_statistic')
    txt = common.expand_helpers(prog.module('yabgp.api.utils'), src_of(f.node))
    ok = "['factory'].fsm.protocol.msg_sent_stat" in txt and "['factory'].fsm.protocol.msg_recv_stat" in txt
    if ok:
        rep.ok('R18.c', 'rest-view', file=f.file, line=f.node.lineno)
    else:
        rep.bad('R18.c', 'rest-view', file=f.file, line=f.node.lineno, func=f.qualname,
                found='the statistic view does not return fsm.protocol.msg_sent_stat / msg_recv_stat',
                key='rest-view')
    # the statistic route itself: reachable in every state (no establishment gate), so the counters of a
    # session that never came up (OPEN sent, NOTIFICATION sent) can be read
    from .c16 import routes
    sr = [(f_, rule, decs) for f_, rule, decs in routes(prog) if rule.endswith('/statistic')]
    if not sr:
        rep.bad('R18.c', 'rest-route', file='yabgp/api/v1.py', found='no /statistic route', key='rest-route')
    for f_, rule, decs in sr:
        extra = [d for d in decs[1:] if d not in ('auth.login_required', 'api_utils.log_request')]
        if extra:
            rep.bad('R18.c', 'rest-route', file=f_.file, line=f_.node.lineno, func=f_.qualname,
                    found='the statistic route is wrapped in %s: it does not answer with the counters unless that '
                          'decorator lets the request through (e.g. only while Established)' % extra,
                    expected='the counters in every state', key='rest-route')
        else:
            rep.ok('R18.c', 'rest-route', file=f_.file, line=f_.node.lineno, found=decs)
    # one message per counted write: nothing joins several messages into one send_bin_update / transport write
    joined = []
    for mname, mf in bgp.methods.items():
        for n in ast.walk(mf.node):
            if isinstance(n, ast.Call) and (src_of(n.func).endswith(('send_bin_update', 'write_tcp_thread', 'transport.write'))
                                             or (src_of(n.func).endswith('callFromThread') and len(n.args) > 1)):
                for a_ in n.args:
                    if '.join(' in common.unalias(mf.node, a_):
                        joined.append((mf, n, a_))
    if joined:
        mf, n, a_ = joined[0]
        rep.bad('R18.a', 'one-message-per-write', file=mf.file, line=n.lineno, func=mf.qualname,
                found='%s is given %s: several messages go out in one write that is counted as one message'
                      % (src_of(n.func), common.unalias(mf.node, a_)[:60]),
                expected='one message per send call', key='one-message-per-write')
    else:
        rep.ok('R18.a', 'one-message-per-write', file=bgp.module.relpath)
    # request-driven sends count after the write: if building the message fails (a field out of range), nothing was
    # sent and nothing may have been counted
    for meth in ('send_update', 'send_bin_update', 'send_route_refresh'):
        f_ = bgp.find_method(meth)
        incs = [n for n in ast.walk(f_.node) if isinstance(n, ast.AugAssign) and 'msg_sent_stat' in src_of(n.target)]
        wrs = [n for n in ast.walk(f_.node) if isinstance(n, ast.Call) and (
            src_of(n.func).endswith('transport.write') or
            (src_of(n.func).endswith('callFromThread') and n.args and 'write' in src_of(n.args[0])))]
        key = 'count-after-write:%s' % meth
        if not incs or not wrs:
            rep.undecided('R18.a', key, file=f_.file, line=f_.node.lineno,
                          found='%d increments, %d writes found' % (len(incs), len(wrs)))
        elif any(i.lineno < min(w_.lineno for w_ in wrs) for i in incs):
            i = min(incs, key=lambda n: n.lineno)
            rep.bad('R18.a', key, file=f_.file, line=i.lineno, func=f_.qualname,
                    found='%s precedes the construction / write of the message: when a requested field does not fit '
                          '(struct.error) nothing is written but the message is counted' % src_of(i),
                    expected='count after transport.write', key=key)
        else:
            rep.ok('R18.a', key, file=f_.file, line=incs[0].lineno)


def is_first_unpack_short(r, cls):
    """The frame is shorter than the minimum of its type iff the decoder's *first* unpack (the
    fixed part) failed: no symbol of that decoder exists on the path."""
    fn = SHORT_FN[cls]
    for name, (fmt, idx, fq, line) in r.st.syminfo.items():
        if fq and fq.endswith(fn):
            return False
    return True


def receive_bookkeeping_cannot_raise(prog, rep, bgp):
    ur = bgp.find_method('_update_received')
    f = bgp.find_method('update_receive_verion')
    if ur is None or f is None:
        rep.undecided('R18.f', 'receive-bookkeeping', found='_update_received / update_receive_verion not found')
        return
    # is the bookkeeping called before the increment at all?
    call_line = inc_line = None
    for n in ast.walk(ur.node):
        if isinstance(n, ast.Call) and src_of(n.func) == 'self.update_receive_verion':
            call_line = n.lineno
        if isinstance(n, ast.AugAssign) and src_of(n.target) == "self.msg_recv_stat['Updates']":
            inc_line = max(inc_line or 0, n.lineno)
    if call_line is None:
        rep.ok('R18.f', 'receive-bookkeeping', file=ur.file, line=ur.node.lineno, nontrivial=False,
               found='_update_received does not call the bookkeeping')
        return
    guarded = False
    par = {c: p for p in ast.walk(ur.node) for c in ast.iter_child_nodes(p)}
    for n in ast.walk(ur.node):
        if isinstance(n, ast.Call) and src_of(n.func) == 'self.update_receive_verion':
            cur = n
            while cur in par:
                cur = par[cur]
                if isinstance(cur, ast.Try) and any(h.type is None or src_of(h.type).split('.')[-1] in
                                                    ('Exception', 'BaseException', 'TypeError') for h in cur.handlers):
                    guarded = True
    # what the decoders yield
    kinds = set()
    for q in ('yabgp.message.attribute.mpreachnlri.MpReachNLRI.parse',
              'yabgp.message.attribute.mpunreachnlri.MpUnReachNLRI.parse'):
        for n in ast.walk(prog.func(q).node):
            if isinstance(n, ast.Call) and src_of(n.func) == 'dict':
                kinds |= {type(k.value).__name__ for k in n.keywords if k.arg == 'afi_safi'}
            if isinstance(n, ast.Dict):
                kinds |= {type(v).__name__ for k, v in zip(n.keys, n.values)
                          if isinstance(k, ast.Constant) and k.value == 'afi_safi'}
    fsp = prog.func('yabgp.message.attribute.nlri.ipv4_flowspec.IPv4FlowSpec.parse')
    int_keys = False
    for n in ast.walk(fsp.node):
        if isinstance(n, ast.Assign) and isinstance(n.targets[0], ast.Subscript) and isinstance(n.targets[0].slice, ast.Name):
            kv = n.targets[0].slice.id
            for m2 in ast.walk(fsp.node):
                if isinstance(m2, ast.Assign) and any(isinstance(t, ast.Name) and t.id == kv for t in m2.targets) and \
                        isinstance(m2.value, ast.Call) and src_of(m2.value.func) in ('ord', 'int'):
                    int_keys = True
    if not kinds:
        raise AnalysisError('R18.f: no afi_safi producer found in the MP_REACH / MP_UNREACH decoders')
    nsites = 0
    for n in ast.walk(f.node):
        if not (isinstance(n, ast.If) and isinstance(n.test, ast.Compare) and len(n.test.ops) == 1 and
                isinstance(n.test.ops[0], ast.Eq) and src_of(n.test.left).endswith("['afi_safi']") and
                isinstance(n.test.comparators[0], (ast.List, ast.Tuple))):
            continue
        lit = n.test.comparators[0]
        try:
            fam = tuple(prog.fold(lit, f.module, f.cls))
        except Exception:
            continue
        if fam != (1, 133):
            continue
        nsites += 1
        code = src_of(n.test.left).split('[')[1].rstrip(']')
        key = 'flowspec-bookkeeping:%s' % code
        live = type(lit).__name__ in kinds
        bare = []
        keyvars = set()
        for b in n.body:
            for x in ast.walk(b):
                if isinstance(x, ast.For) and isinstance(x.target, ast.Name) and '.keys()' in src_of(x.iter):
                    keyvars.add(x.target.id)
        for b in n.body:
            for x in ast.walk(b):
                if isinstance(x, ast.BinOp) and isinstance(x.op, ast.Add):
                    for a, o in ((x.left, x.right), (x.right, x.left)):
                        if isinstance(a, ast.Name) and a.id in keyvars and \
                                any(isinstance(c, ast.Constant) and isinstance(c.value, str) for c in ast.walk(o)):
                            bare.append(x)
        if not live:
            rep.ok('R18.f', key, file=f.file, line=n.lineno, nontrivial=False,
                   found='family test compares a %s with a %s literal: branch dead (C19 R19.d), nothing can raise' % (
                       '/'.join(sorted(kinds)).lower(), type(lit).__name__.lower()))
        elif bare and int_keys and not guarded:
            rep.bad('R18.f', key, file=f.file, line=bare[0].lineno, func=f.qualname,
                    found='the flowspec branch is live and builds its key with %s: the component keys of a decoded '
                          'flowspec rule are integers, so TypeError escapes update_receive_verion before '
                          "msg_recv_stat['Updates'] += 1 (line %s) and the catch-all of parse_buffer swallows it - the "
                          'UPDATE is received but never counted' % (src_of(bare[0]), inc_line),
                    expected='str(k), or count before the bookkeeping', key=key)
        else:
            rep.ok('R18.f', key, file=f.file, line=n.lineno, found='live branch, keys converted with str()')
    rep.floor('R18.f', 'flowspec family tests in the receive bookkeeping', nsites, 2)
