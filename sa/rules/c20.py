"""C20 - on-disk message log stays well-formed and gap-free (structural part)."""
import ast

from ..front import AnalysisError, src_of
from . import common
from .c10 import parents

H = 'yabgp.handler.default_handler.DefaultHandler'
CALLBACKS = {'on_update_error': 1, 'update_received': 1, 'send_open': 1, 'open_received': 1,
             'route_refresh_received': 1, 'notification_received': 1, 'on_connection_lost': 1,
             'on_connection_failed': 1, 'on_established': 0}


def sorted_stmts(f):
    return sorted((n for n in ast.walk(f.node) if isinstance(n, ast.stmt)), key=lambda n: (n.lineno, n.col_offset))


def check(prog, rep, tier):
    rep.rule('R20.f', 'one key for one peer: the handler opens its file under the configured peer address and every callback '
                      'looks it up under factory.peer_addr - BGPPeering keeps the address it was given verbatim')
    peer_addr_verbatim(prog, rep)
    rep.rule('R20.a', 'one line per event: every handler callback calls write_msg exactly once (keepalive: only '
                      'under its option; on_established: never), always with msg={"msg": ...}; the record has the '
                      'keys t, seq, type')
    rep.rule('R20.b', 'atomic line: the record is serialised completely before the file is touched and written '
                      'with one write that ends in a newline; flush and fsync follow; the sequence number moves by '
                      'one per line; nothing else writes the file')
    rep.rule('R20.c', 'JSON-safe payload: no bytes value (hexlified data without .decode, raw slices) is placed in a '
                      'decoded message structure by the decoders')
    rep.rule('R20.d', 'tolerant recovery: no process exit is reachable from the handler that covers parsing the '
                      'tail of the newest file')
    rep.rule('R20.e', 'rotation-safe recovery: the recovered number does not depend on the newest file alone while '
                      'rotation can leave an empty newest file')
    rep.assumptions += ['crash points cannot be enumerated statically: only the structural conditions are decided']
    cls = prog.cls(H)

    # ---------------------------------------------------------------- R20.a
    for name, want in sorted(CALLBACKS.items()):
        f = cls.find_method(name)
        if f is None:
            rep.bad('R20.a', 'callback:%s' % name, file=cls.module.relpath, found='callback vanished', key='callback:%s' % name)
            continue
        calls = [n for n in ast.walk(f.node) if isinstance(n, ast.Call) and src_of(n.func) == 'self.write_msg']
        par = parents(f.node)
        cond = [c for c in calls if any(isinstance(p, (ast.If, ast.For, ast.While, ast.Try))
                                        for p in ancestors(par, c, f.node))]
        probs = []
        if len(calls) != want:
            probs.append('%d write_msg call(s), expected %d' % (len(calls), want))
        if cond:
            probs.append('write_msg is conditional')
        early = [n for n in ast.walk(f.node) if isinstance(n, (ast.Return, ast.Raise)) and calls and
                 (n.lineno, n.col_offset) < (calls[0].lineno, calls[0].col_offset)]
        if early and want:
            probs.append('a path leaves the callback at line %d before write_msg is reached: that event is '
                         'reported but no line is written' % early[0].lineno)
        for c in calls:
            kw = {k.arg: k.value for k in c.keywords}
            m = kw.get('msg')
            if not (isinstance(m, ast.Dict) and len(m.keys) == 1 and isinstance(m.keys[0], ast.Constant)
                    and m.keys[0].value == 'msg'):
                probs.append('payload is %s, expected {"msg": ...}' % (src_of(m) if m is not None else None))
            if not {'peer', 'timestamp', 'msg_type', 'msg'} <= set(kw):
                probs.append('write_msg keywords %s' % sorted(kw))
        key = 'callback:%s' % name
        if probs:
            rep.bad('R20.a', key, file=f.file, line=f.node.lineno, func=f.qualname, found='; '.join(probs), key=key)
        else:
            rep.ok('R20.a', key, file=f.file, line=f.node.lineno, nontrivial=want > 0)
    f = cls.find_method('keepalive_received')
    calls = [n for n in ast.walk(f.node) if isinstance(n, ast.Call) and src_of(n.func) == 'self.write_msg']
    par = parents(f.node)
    conds_k = common.conds_at(f.node, calls[0]) if len(calls) == 1 else []
    good = len(calls) == 1 and len(conds_k) == 1 and conds_k[0][1] is True and \
        'write_keepalive' in src_of(conds_k[0][0])
    if good:
        rep.ok('R20.a', 'callback:keepalive_received', file=f.file, line=f.node.lineno)
    else:
        rep.bad('R20.a', 'callback:keepalive_received', file=f.file, line=f.node.lineno, func=f.qualname,
                found='%d write_msg call(s); conditions at the call: %s (exactly the keepalive option is expected: '
                      'every KEEPALIVE of a session is logged when the option is on)' % (
                          len(calls), [('' if v_ else 'not ') + src_of(t_) for t_, v_ in conds_k]),
                key='callback:keepalive_received')
    w = cls.find_method('write_msg')
    if w is None:
        raise AnalysisError('write_msg vanished')
    rec = [n for n in ast.walk(w.node) if isinstance(n, ast.Dict) and
           {k.value for k in n.keys if isinstance(k, ast.Constant)} == {'t', 'seq', 'type'}]
    upd = [n for n in ast.walk(w.node) if isinstance(n, ast.Call) and isinstance(n.func, ast.Attribute)
           and n.func.attr == 'update' and n.args and src_of(n.args[0]) == 'msg']
    if rec and upd:
        rep.ok('R20.a', 'record-keys', file=w.file, line=rec[0].lineno, found='t, seq, type + msg')
    else:
        rep.bad('R20.a', 'record-keys', file=w.file, line=w.node.lineno, func=w.qualname,
                found='the record is not {t, seq, type} updated with the payload', key='record-keys')

    # ---------------------------------------------------------------- R20.b
    stmts = sorted_stmts(w)
    par = parents(w.node)
    file_var = None
    for n in ast.walk(w.node):
        if isinstance(n, ast.Assign) and isinstance(n.targets[0], ast.Tuple) and 'peer_files' in src_of(n.value):
            file_var = src_of(n.targets[0].elts[1])
    dumps_to_file = [n for n in ast.walk(w.node) if isinstance(n, ast.Call) and src_of(n.func) == 'json.dump'
                     and len(n.args) >= 2 and src_of(n.args[1]) == file_var]
    writes = [n for n in ast.walk(w.node) if isinstance(n, ast.Call) and isinstance(n.func, ast.Attribute) and
              n.func.attr == 'write' and src_of(n.func.value) == file_var]
    if dumps_to_file:
        d = dumps_to_file[0]
        rep.bad('R20.b', 'atomic-line', file=w.file, line=d.lineno, func=w.qualname,
                found='json.dump streams the record into the file object (inside try/except that continues): a '
                      'non-serialisable payload leaves a partial JSON object followed by a newline',
                expected='line = json.dumps(record) + "\\n"; file.write(line)', key='atomic-line')
    elif len(writes) == 1 and 'dumps' in src_of(w.node):
        rep.ok('R20.b', 'atomic-line', file=w.file, line=writes[0].lineno)
    else:
        rep.bad('R20.b', 'atomic-line', file=w.file, line=w.node.lineno, func=w.qualname,
                found='%d write call(s) on the log file per record' % len(writes), expected='one write per record',
                key='atomic-line:writes')
    # flush + fsync after the write on every path, seq += 1 exactly once, none conditional
    def uncond(pred, what):
        hits = [n for n in stmts if pred(n)]
        if len(hits) != 1:
            return '%d %s statement(s)' % (len(hits), what)
        anc = ancestors(par, hits[0], w.node)
        conds = [p for p in anc if isinstance(p, (ast.If, ast.Try, ast.For, ast.While))]
        conds = [p for p in conds if not (isinstance(p, ast.If) and src_of(p.test) in ('msg_path',))]
        if conds:
            return '%s is conditional' % what
        return None
    for what, pred in (
            ('flush', lambda n: isinstance(n, ast.Expr) and src_of(n.value) == '%s.flush()' % file_var),
            ('fsync', lambda n: isinstance(n, ast.Expr) and src_of(n.value).startswith('os.fsync(') and
             file_var in src_of(n.value)),
            ('sequence increment', lambda n: isinstance(n, ast.AugAssign) and 'msg_sequence' in src_of(n.target)
             and isinstance(n.op, ast.Add) and src_of(n.value) == '1')):
        p = uncond(pred, what)
        key = 'after-write:%s' % what.split()[0]
        if p:
            rep.bad('R20.b', key, file=w.file, line=w.node.lineno, func=w.qualname, found=p,
                    expected='exactly one unconditional %s per record' % what, key=key)
        else:
            rep.ok('R20.b', key, file=w.file, line=w.node.lineno)
    # order: write(s) < flush < fsync
    def line_of(pred):
        for n in stmts:
            if pred(n):
                return n.lineno
        return None
    lw = max([x.lineno for x in writes] or [0])
    lf = line_of(lambda n: isinstance(n, ast.Expr) and src_of(n.value) == '%s.flush()' % file_var)
    ls = line_of(lambda n: isinstance(n, ast.Expr) and src_of(n.value).startswith('os.fsync('))
    if lw and lf and ls and lw < lf < ls:
        rep.ok('R20.b', 'order', file=w.file, line=lf)
    else:
        rep.bad('R20.b', 'order', file=w.file, line=w.node.lineno, func=w.qualname,
                found='write at %s, flush at %s, fsync at %s' % (lw, lf, ls), expected='write < flush < fsync', key='order')
    # other writers of the log files
    for fn in prog.all_functions():
        if fn is w:
            continue
        for n in ast.walk(fn.node):
            if isinstance(n, ast.Call) and isinstance(n.func, ast.Attribute) and n.func.attr in ('write', 'writelines') \
                    and ('msg_file' in src_of(n.func.value) or 'cur_file' in src_of(n.func.value)):
                key = 'other-writer:%s' % fn.qualname
                rep.bad('R20.b', key, file=fn.file, line=n.lineno, func=fn.qualname,
                        found='%s writes the log file outside write_msg' % src_of(n)[:60], key=key)
    for fn in prog.all_functions():
        for n in ast.walk(fn.node):
            if isinstance(n, (ast.Assign, ast.AugAssign)):
                t = n.targets[0] if isinstance(n, ast.Assign) else n.target
                if 'msg_sequence' in src_of(t) and fn.cls is not cls:
                    key = 'seq-writer:%s' % fn.qualname
                    rep.bad('R20.b', key, file=fn.file, line=n.lineno, func=fn.qualname,
                            found='sequence number written outside the handler', key=key)

    # write_msg holds the file object it fetched from the per-peer table: it must not call anything that closes or
    # replaces that entry (rotation) before it has finished with the handle
    replacers = set()
    for mname, mf in cls.methods.items():
        for n in ast.walk(mf.node):
            if isinstance(n, ast.Assign) and any(isinstance(t, ast.Subscript) and src_of(t.value) == 'self.peer_files'
                                                 for t in n.targets):
                replacers.add(mname)
    stale = [n for n in ast.walk(w.node) if isinstance(n, ast.Call) and isinstance(n.func, ast.Attribute)
             and isinstance(n.func.value, ast.Name) and n.func.value.id == 'self' and n.func.attr in replacers]
    if stale:
        rep.bad('R20.b', 'stale-handle', file=w.file, line=stale[0].lineno, func=w.qualname,
                found='write_msg calls self.%s(), which closes / replaces the per-peer file, while it holds the file '
                      'object fetched before: the record goes to a closed file and is lost' % stale[0].func.attr,
                expected='rotate outside write_msg, or fetch the file object after rotating', key='stale-handle')
    else:
        rep.ok('R20.b', 'stale-handle', file=w.file, line=w.node.lineno, found='replacers: %s' % sorted(replacers))

    # the keys under which the per-peer tables are filled are lower-cased too (readers look up peer.lower())
    for mname, mf in sorted(cls.methods.items()):
        for n in ast.walk(mf.node):
            if not (isinstance(n, ast.Assign) and any(
                    isinstance(t, ast.Subscript) and src_of(t.value) in ('self.peer_files', 'self.msg_sequence')
                    for t in n.targets)):
                continue
            t = [t for t in n.targets if isinstance(t, ast.Subscript)][0]
            ktxt = common.unalias(mf.node, t.slice)
            key = 'peer-key-store:%s:%s' % (mname, src_of(t.value).split('.')[-1])
            ok = ktxt.endswith('.lower()')
            why = 'stored under %s' % ktxt
            if not ok and isinstance(t.slice, ast.Name) and t.slice.id in mf.params:
                # a parameter: every caller inside the class passes a lower-cased address
                idx = mf.params.index(t.slice.id) - 1
                calls = [(m2, c) for m2 in cls.methods.values() for c in ast.walk(m2.node)
                         if isinstance(c, ast.Call) and src_of(c.func) == 'self.%s' % mname]
                args = []
                for m2, c in calls:
                    a = c.args[idx] if idx < len(c.args) else next(
                        (k.value for k in c.keywords if k.arg == t.slice.id), None)
                    args.append(common.unalias(m2.node, a) if a is not None else None)
                ok = bool(calls) and all(a is not None and a.endswith('.lower()') for a in args)
                why = 'stored under the parameter %s, callers pass %s' % (t.slice.id, args)
            if ok:
                if not any(i.key == key for i in rep.instances):
                    rep.ok('R20.b', key, file=mf.file, line=n.lineno)
            else:
                rep.bad('R20.b', key, file=mf.file, line=n.lineno, func=mf.qualname,
                        found='%s: write_msg / check_file_size look the peer up with peer.lower(), so a peer address '
                              'with an upper-case character never finds its file and nothing is written' % why,
                        expected='the same lower-cased key on the storing side', key=key)

    # every access to the per-peer tables inside write_msg / check_file_size uses the same key
    for fn in (w, cls.find_method('check_file_size')):
        peerp = fn.params[1] if len(fn.params) > 1 else 'peer'
        bad_keys = []
        for n in ast.walk(fn.node):
            key_expr = None
            if isinstance(n, ast.Subscript) and src_of(n.value) in ('self.peer_files', 'self.msg_sequence'):
                key_expr = n.slice
            elif isinstance(n, ast.Call) and isinstance(n.func, ast.Attribute) and n.func.attr == 'get' and \
                    src_of(n.func.value) in ('self.peer_files', 'self.msg_sequence') and n.args:
                key_expr = n.args[0]
            if key_expr is not None and common.unalias(fn.node, key_expr) != '%s.lower()' % peerp:
                bad_keys.append((n.lineno, src_of(key_expr)))
        key = 'peer-key:%s' % fn.name
        if bad_keys:
            rep.bad('R20.b', key, file=fn.file, line=bad_keys[0][0], func=fn.qualname,
                    found='the per-peer table is indexed with %s here and with %s.lower() elsewhere: a peer address '
                          'with an upper-case character gets two entries and writes go to a closed file' % (
                              bad_keys[0][1], peerp), expected='one normalised key', key=key)
        else:
            rep.ok('R20.b', key, file=fn.file, line=fn.node.lineno)

    # ---------------------------------------------------------------- R20.c
    nsite = 0
    for fn in prog.all_functions():
        if not fn.module.name.startswith('yabgp.message') or fn.name.startswith('construct'):
            continue
        par2 = parents(fn.node)
        for n in ast.walk(fn.node):
            if isinstance(n, ast.Call) and src_of(n.func) in ('binascii.b2a_hex', 'binascii.hexlify'):
                p = par2.get(n)
                decoded = isinstance(p, ast.Attribute) and p.attr == 'decode'
                numeric = isinstance(p, ast.Call) and src_of(p.func) in ('int', 'str', 'repr', 'len')
                if decoded or numeric:
                    continue
                # flows into a returned / stored structure?
                st = n
                while st in par2 and not isinstance(st, ast.stmt):
                    st = par2[st]
                if isinstance(st, (ast.Return, ast.Assign)) or (isinstance(st, ast.Expr) and 'append' in src_of(st)):
                    if isinstance(st, ast.Assign) and isinstance(st.targets[0], ast.Name):
                        name = st.targets[0].id
                        later = [m for m in ast.walk(fn.node) if isinstance(m, ast.Name) and m.id == name
                                 and isinstance(m.ctx, ast.Load)]
                        ok_later = all(isinstance(par2.get(m), ast.Call) and
                                       src_of(par2[m].func) in ('int', 'str', 'repr', 'len') for m in later) and later
                        if ok_later:
                            continue
                    nsite += 1
                    key = 'bytes-payload:%s:%s' % (fn.qualname, ' '.join(src_of(st).split())[:70])
                    rep.bad('R20.c', key, file=fn.file, line=n.lineno, func=fn.qualname,
                            found='%s puts a bytes value into the decoded message (json cannot serialise it)'
                                  % src_of(st)[:90], expected='.decode() / repr()', key=key)
    if nsite == 0:
        rep.ok('R20.c', 'bytes-payload', found='no hexlified bytes reach a decoded structure')

    # ---------------------------------------------------------------- R20.d / R20.e
    g = cls.find_method('get_last_seq_and_file')
    # a record has no maximum length (one line per UPDATE, hundreds of prefixes): the last line must be found
    # by reading the file, not by looking at a window of constant size
    gpar = parents(g.node)
    bounded = []
    for n in ast.walk(g.node):
        if isinstance(n, ast.Call) and isinstance(n.func, ast.Attribute) and \
                n.func.attr in ('seek', 'read', 'readline', 'readlines', 'truncate') and \
                not any(isinstance(p_, (ast.While, ast.For)) for p_ in ancestors(gpar, n, g.node)):
            a0 = n.args[0] if n.args else None
            if n.func.attr == 'seek' and a0 is not None and not (isinstance(a0, ast.Constant) and a0.value == 0
                                                                 and len(n.args) == 1):
                bounded.append(n)
            elif n.func.attr != 'seek' and a0 is not None and not (isinstance(a0, ast.Constant) and a0.value in (-1, None)):
                bounded.append(n)
    if bounded:
        n = bounded[0]
        rep.bad('R20.d', 'recovery-window', file=g.file, line=n.lineno, func=g.qualname,
                found='%s outside any loop: the last line is looked for in a window of fixed size, a longer last '
                      'line is cut and the sequence number silently restarts' % src_of(n)[:60],
                expected='scan the file (or search backwards in a loop) for the last complete line',
                key='recovery-window')
    else:
        rep.ok('R20.d', 'recovery-window', file=g.file, line=g.node.lineno)
    exits = [n for n in ast.walk(g.node) if isinstance(n, ast.Call) and src_of(n.func) in ('sys.exit', 'exit', 'os._exit')]
    raises = []
    for t in [n for n in ast.walk(g.node) if isinstance(n, ast.Try)]:
        for h in t.handlers:
            for n in ast.walk(ast.Module(body=h.body, type_ignores=[])):
                if isinstance(n, ast.Raise):
                    raises.append(n)
    # the newest file is the last one in plain lexicographic order of the names ("<time.time()>.msg"); a key that
    # is not numeric reorders them
    sorts = [n for n in ast.walk(g.node) if isinstance(n, ast.Call) and (
        (isinstance(n.func, ast.Attribute) and n.func.attr == 'sort') or src_of(n.func) == 'sorted')]
    bad_sort = None
    for n in sorts:
        for k in n.keywords:
            if k.arg == 'reverse' or (k.arg == 'key' and not any(x in src_of(k.value) for x in ('float(', 'Decimal('))):
                bad_sort = (n, k)
    if not sorts:
        rep.undecided('R20.e', 'newest-file-order', file=g.file, line=g.node.lineno, found='no sort of the file list')
    elif bad_sort:
        n, k = bad_sort
        rep.bad('R20.e', 'newest-file-order', file=g.file, line=n.lineno, func=g.qualname,
                found='the message files are ordered with %s=%s: names are time stamps of varying length, so a newer '
                      'file can sort before an older one and recovery resumes from the wrong file' % (k.arg, src_of(k.value)),
                expected='plain lexicographic (or numeric) order, newest last', key='newest-file-order')
    else:
        rep.ok('R20.e', 'newest-file-order', file=g.file, line=sorts[0].lineno)
    # lines in the old list format are Python literals (None, tuples, single quotes), not JSON
    legacy = [n for n in ast.walk(g.node) if isinstance(n, ast.If) and "startswith('[')" in src_of(n.test)]
    if legacy:
        body_txt = ' '.join(src_of(b) for b in legacy[0].body)
        if 'eval(' in body_txt or 'literal_eval(' in body_txt:
            rep.ok('R20.d', 'legacy-format-reader', file=g.file, line=legacy[0].lineno)
        else:
            rep.bad('R20.d', 'legacy-format-reader', file=g.file, line=legacy[0].lineno, func=g.qualname,
                    found='a last line in the old list format is read with %s: such lines are Python literals '
                          '(None, tuples, single-quoted strings), the reader raises and the agent exits' % body_txt[:60],
                    expected='eval / ast.literal_eval for the list format', key='legacy-format-reader')
    else:
        rep.undecided('R20.d', 'legacy-format-reader', file=g.file, line=g.node.lineno,
                      found="no branch for lines starting with '['")
    if exits or raises:
        n = (exits + raises)[0]
        rep.bad('R20.d', 'recovery-exit', file=g.file, line=n.lineno, func=g.qualname,
                found='%s is reachable when the last line of the newest file does not parse (torn tail after a '
                      'crash): the agent refuses to start because of its own log' % src_of(n)[:40],
                expected='fall back to an earlier complete line', key='recovery-exit')
    else:
        rep.ok('R20.d', 'recovery-exit', file=g.file, line=g.node.lineno)
    txt = src_of(g.node)
    only_last = 'file_list[-1]' in txt and not any(
        isinstance(n, (ast.For, ast.While)) and 'file_list' in src_of(n.iter if isinstance(n, ast.For) else n.test)
        for n in ast.walk(g.node))
    rot = cls.find_method('check_file_size')
    writes_on_rotate = any(isinstance(n, ast.Call) and isinstance(n.func, ast.Attribute) and n.func.attr == 'write'
                           for n in ast.walk(rot.node))
    if only_last and not writes_on_rotate:
        rep.bad('R20.e', 'recovery-after-rotation', file=g.file, line=g.node.lineno, func=g.qualname,
                found='recovery reads only the newest file; check_file_size opens a new, empty newest file, so a '
                      'restart right after a rotation recovers sequence number 0 and numbers are reused',
                expected='search earlier files when the newest has no complete line', key='recovery-after-rotation')
    else:
        rep.ok('R20.e', 'recovery-after-rotation', file=g.file, line=g.node.lineno)
    # init: next number = recovered + 1, file opened for append
    i = cls.find_method('init_msg_file')
    ti = src_of(i.node)
    if 'last_msg_seq + 1' in ti and "'a'" in ti:
        rep.ok('R20.e', 'resume-next-number', file=i.file, line=i.node.lineno)
    else:
        rep.bad('R20.e', 'resume-next-number', file=i.file, line=i.node.lineno, func=i.qualname,
                found='the next sequence number is not recovered + 1 or the file is not opened for append',
                key='resume-next-number')
    tr = src_of(rot.node)
    if "'a'" in tr or '"a"' in tr:
        rep.ok('R20.e', 'rotation-append', file=rot.file, line=rot.node.lineno)
    else:
        rep.bad('R20.e', 'rotation-append', file=rot.file, line=rot.node.lineno, func=rot.qualname,
                found='the rotated file is not opened in append mode', key='rotation-append')


def ancestors(par, node, stop):
    out = []
    cur = node
    while cur in par and cur is not stop:
        cur = par[cur]
        out.append(cur)
    return out



def peer_addr_verbatim(prog, rep):
    import ast
    from ..front import src_of
    f = prog.func('yabgp.core.factory.BGPPeering.__init__')
    stores = [n for n in ast.walk(f.node) if isinstance(n, ast.Assign) and
              any(isinstance(t, ast.Attribute) and t.attr == 'peer_addr' and src_of(t.value) == 'self' for t in n.targets)]
    others = [(g, n) for g in prog.all_functions() if g is not f for n in ast.walk(g.node)
              if isinstance(n, (ast.Assign, ast.AugAssign)) and any(
                  isinstance(t, ast.Attribute) and t.attr == 'peer_addr' and
                  src_of(t.value) in ('self', 'self.factory', 'factory')
                  for t in (n.targets if isinstance(n, ast.Assign) else [n.target]))
              and g.module.name.startswith('yabgp.core')]
    key = 'peer-addr-verbatim'
    if len(stores) != 1:
        rep.undecided('R20.f', key, file=f.file, line=f.node.lineno, found='%d stores of self.peer_addr' % len(stores))
        return
    v = common.unalias(f.node, stores[0].value)
    if v in f.params and not others:
        rep.ok('R20.f', key, file=f.file, line=stores[0].lineno, found=src_of(stores[0]))
    else:
        st = stores[0] if v not in f.params else others[0][1]
        rep.bad('R20.f', key, file=f.file, line=st.lineno, func=f.qualname,
                found='%s: the address the callbacks use as file key is no longer the configured string the handler '
                      'opened the file under (any spelling the transformation changes finds no file: nothing is '
                      'written)' % src_of(st), expected='self.peer_addr = <constructor argument>', key=key)
