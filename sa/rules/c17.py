"""C17 - decoded community text is accepted back by the REST API (structural part)."""
import ast

from ..front import AnalysisError, NotConst, src_of
from ..values import Const, Opaque, Obj, BytesV
from .. import prims
from .. import codec
from .. import bytelen as BL
from . import common
from .c15 import ord_int_sites

EXT = 'yabgp.message.attribute.extcommunity.ExtCommunity'
V1 = 'yabgp.api.v1'
CONS = 'yabgp.common.constants'


def chain_codes(prog, fn, var):
    """Constants the function compares `var` with (if/elif chain) -> {value: lineno}."""
    out = {}
    for n in ast.walk(fn.node):
        if isinstance(n, ast.Compare) and isinstance(n.ops[0], (ast.Eq, ast.In)) and \
                (src_of(n.left) == var or common.unalias(fn.node, n.left) == var):
            rhs = n.comparators[0]
            elts = [rhs] if isinstance(n.ops[0], ast.Eq) else (
                list(rhs.elts) if isinstance(rhs, (ast.Tuple, ast.List, ast.Set)) else [])
            for e in elts:
                v = prog.try_fold(e, fn.module, fn.cls)
                if v is not None:
                    out.setdefault(v, n.lineno)
    return out


def view_translation(prog, fn):
    """Literal names the recombination block recognises -> set of codes appended for that name;
    plus whether the DICT_1 / DICT table fallbacks are present."""
    names = {}
    tables = set()
    keyexprs = {'key.strip().lower()'}
    for n in ast.walk(fn.node):
        if isinstance(n, ast.Assign) and isinstance(n.targets[0], ast.Name) and src_of(n.value) == 'key.strip().lower()':
            keyexprs.add(n.targets[0].id)
    for n in ast.walk(fn.node):
        if isinstance(n, ast.If):
            tests = [n.test] if not (isinstance(n.test, ast.BoolOp) and isinstance(n.test.op, ast.Or)) else list(n.test.values)
            for t in tests:
                for k in keyexprs:
                    if 'BGP_EXT_COM_DICT_1.get(%s)' % k in src_of(t):
                        tables.add('DICT_1')
            t = n.test
            if isinstance(t, ast.Compare) and isinstance(t.ops[0], ast.Eq) and \
                    src_of(t.left) in keyexprs and isinstance(t.comparators[0], ast.Constant):
                name = t.comparators[0].value
                codes = set()
                for c in ast.walk(ast.Module(body=n.body, type_ignores=[])):
                    if isinstance(c, ast.Call) and src_of(c.func) == 'ext_community.append' and c.args and \
                            isinstance(c.args[0], ast.List) and c.args[0].elts and \
                            isinstance(c.args[0].elts[0], ast.Constant):
                        codes.add(c.args[0].elts[0].value)
                names.setdefault(name, set()).update(codes)
            if 'BGP_EXT_COM_DICT_1.get(key.strip().lower())' in src_of(t):
                tables.add('DICT_1')
    txt = src_of(fn.node)
    if any('bgp_cons.BGP_EXT_COM_DICT.get(%s)' % k in txt for k in keyexprs):
        tables.add('DICT')
    return names, tables


def recombine_block(fn):
    for n in ast.walk(fn.node):
        if isinstance(n, ast.If) and src_of(n.test) == '16 in attr':
            return n
    return None


class _Unalias(ast.NodeTransformer):
    def __init__(self, aliases):
        self.aliases = aliases

    def visit_Name(self, node):
        if node.id in self.aliases and isinstance(node.ctx, ast.Load):
            return ast.parse('key.strip().lower()', mode='eval').body
        return node


def arms(block, fn=None):
    """{condition text: normalised body dump} of the if/elif chain inside the for loop; local
    aliases of key.strip().lower() are substituted back so that a copy using a named local
    compares equal."""
    import copy
    aliases = set()
    for n in ast.walk(fn.node if fn is not None else block):
        if isinstance(n, ast.Assign) and isinstance(n.targets[0], ast.Name) and src_of(n.value) == 'key.strip().lower()':
            aliases.add(n.targets[0].id)
    if aliases:
        block = _Unalias(aliases).visit(copy.deepcopy(block))
        ast.fix_missing_locations(block)
    if fn is not None:
        block = common.unalias_block(fn.node, block)
    out = {}
    loops = [n for n in ast.walk(block) if isinstance(n, ast.For) and src_of(n.target) == 'ext_com']
    if not loops:
        return out
    chain = [s for s in loops[0].body if isinstance(s, ast.If)]
    # statements before the chain that only define the alias are not part of the comparison
    if not chain:
        return out
    node = chain[0]
    while True:
        out[src_of(node.test)] = '\n'.join(ast.dump(s, include_attributes=False) for s in node.body)
        if len(node.orelse) == 1 and isinstance(node.orelse[0], ast.If):
            node = node.orelse[0]
        else:
            out['else'] = '\n'.join(ast.dump(s, include_attributes=False) for s in node.orelse)
            break
    return out


def rest_keeps_no_copies(prog, rep, rule):
    from .c10 import shared_state_writes
    ALLOWED = {('yabgp.api.v1.root', 'writes cfg.CONF.keep_alive.last_time')}      # liveness stamp, not peer state
    nfun, hits = shared_state_writes(prog, lambda fn: fn.module.name.startswith('yabgp.api'))
    bad = [(f, n, d) for f, n, d in hits if (f.qualname, d) not in ALLOWED]
    for f, n, d in bad[:3]:
        key = 'rest-state:%s:%s' % (f.qualname, d.split(' ')[-1][:40])
        rep.bad(rule, key, file=f.file, line=n.lineno, func=f.qualname,
                found='%s %s: a module-level copy of peer configuration / session state outlives the moment it was '
                      'taken (capabilities learnt from the OPEN, a new protocol object after a reconnect are never '
                      'seen)' % (f.qualname, d), expected='read cfg.CONF.bgp.running_config at every request', key=key)
    if not bad:
        rep.ok(rule, 'rest-state', found='%d functions of yabgp.api, none keeps module-level state' % nfun)
    rep.floor(rule, 'REST functions scanned', nfun, 25)


def check(prog, rep, tier):
    rep.rule('R17.a', 'name closure: every text name ExtCommunity.parse renders is translated by both REST views '
                      '(explicit branch or table) to codes ExtCommunity.construct encodes; the name tables are '
                      'mutually consistent')
    rep.rule('R17.b', 'sibling agreement: the two copies of the extended-community recombination code '
                      '(send_update_message, json_to_bin) have the same arms')
    rep.rule('R17.c', 'well-known community names: every name Community.parse renders is, after the normaliser '
                      'Community.construct applies, a key of the lookup table')
    rep.rule('R17.d', 'no ord() of an integer-indexed bytes value on a live path of the community decoders')
    rep.rule('R17.e', 'every extended-community code ExtCommunity.construct handles encodes to exactly 8 octets')
    rep.rule('R17.f', 'read coverage: for every extended-community code both directions handle, the decoder reads '
                      'every value octet in which the encoder places a given value')
    rep.rule('R17.g', 'field boundaries: no comparison in the community codecs or the REST recombination splits a range '
                      'between 2**k - 2 and 2**k - 1 (the largest value of a field must be on the fitting side)')
    rep.rule('R17.i', 'the REST layer reads live peer state: no function of yabgp.api keeps a module-level copy of configuration or '
                      'session objects (the peer capabilities the recombination consults are filled in when the OPEN '
                      'arrives; a copy taken earlier never sees them)')
    rep.rule('R17.h', 'unsigned wire: no signed struct code in the community codecs (traffic-rate float excepted by '
                      'its own code f)')
    rest_keeps_no_copies(prog, rep, 'R17.i')
    common.const_key_lookups(prog, rep, 'R17.a', lambda fn: fn.module.name in (
        'yabgp.message.attribute.extcommunity', 'yabgp.message.attribute.community',
        'yabgp.message.attribute.largecommunity'), 8)
    rep.assumptions += ['float rounding of traffic-rate and numeric ranges are not decided']
    cm = prog.module(CONS)
    STR = prog.fold(cm.assigns['BGP_EXT_COM_STR_DICT'], cm)
    D = prog.fold(cm.assigns['BGP_EXT_COM_DICT'], cm)
    D1 = prog.fold(cm.assigns['BGP_EXT_COM_DICT_1'], cm)
    fp = prog.func(EXT + '.parse')
    fc = prog.func(EXT + '.construct')
    dec = chain_codes(prog, fp, 'comm_code')
    enc = chain_codes(prog, fc, 'item[0]')
    rep.floor('R17.a', 'codes decoded', len(dec), 18)
    views = {}
    for vn in ('send_update_message', 'json_to_bin'):
        f = prog.module(V1).functions.get(vn)
        if f is None:
            raise AnalysisError('view %s vanished' % vn)
        views[vn] = (f,) + view_translation(prog, f)

    # ---------------------------------------------------------------- R17.a
    for code, line in sorted(dec.items()):
        name = STR.get(code)
        key = 'name:%s' % code
        if name is None:
            rep.bad('R17.a', key, file=fp.file, line=line, func=fp.qualname,
                    found='code %s is decoded but has no text name in BGP_EXT_COM_STR_DICT (KeyError)' % code, key=key)
            continue
        probs = []
        for vn, (f, names, tables) in views.items():
            codes = None
            if name in names:
                codes = names[name]
            elif name in D1 and 'DICT_1' in tables:
                codes = {D1[name]}
            elif name in D and 'DICT' in tables:
                codes = {D[name]}
            if codes is None:
                probs.append('%s has no translation for "%s"' % (vn, name))
                continue
            if code not in codes and not (name in names):
                probs.append('%s translates "%s" to %s, the decoder rendered it from %s' % (vn, name, sorted(codes), code))
            missing = [c for c in codes if c not in enc]
            if missing:
                probs.append('%s translates "%s" to code(s) %s that ExtCommunity.construct does not encode' % (
                    vn, name, missing))
            if name in names and code not in codes:
                probs.append('%s handles "%s" but never produces code %s' % (vn, name, code))
        if probs:
            rep.bad('R17.a', key, file=views['send_update_message'][0].file, line=line, func='recombination',
                    found='; '.join(probs[:2]), expected='text name accepted back and re-encoded', key=key)
        else:
            rep.ok('R17.a', key, file=fp.file, line=line, found='%s "%s"' % (code, name))
    for n, c in sorted(list(D.items()) + list(D1.items())):
        key = 'table:%s' % n
        if STR.get(c) == n:
            rep.ok('R17.a', key, file=cm.relpath, line=cm.assign_lines.get('BGP_EXT_COM_DICT'))
        else:
            rep.bad('R17.a', key, file=cm.relpath, line=cm.assign_lines.get('BGP_EXT_COM_DICT'),
                    found='BGP_EXT_COM_DICT[%r] = %s but BGP_EXT_COM_STR_DICT[%s] = %r' % (n, c, c, STR.get(c)),
                    expected='inverse tables', key=key)

    # ---------------------------------------------------------------- R17.b
    a1 = arms(recombine_block(views['send_update_message'][0]) or ast.Pass(), views['send_update_message'][0])
    a2 = arms(recombine_block(views['json_to_bin'][0]) or ast.Pass(), views['json_to_bin'][0])
    if not a1 or not a2:
        rep.undecided('R17.b', 'recombination-copies', found='recombination block not found in both views')
    else:
        diff = sorted(k for k in set(a1) | set(a2) if a1.get(k) != a2.get(k))
        if diff:
            f = views['json_to_bin'][0]
            rep.bad('R17.b', 'recombination-copies', file=f.file, line=f.node.lineno, func=f.qualname,
                    found='the two copies differ in the arm(s) %s' % [d[:60] for d in diff[:3]],
                    expected='identical arms', key='recombination-copies')
        else:
            rep.ok('R17.b', 'recombination-copies', file=views['json_to_bin'][0].file,
                   found='%d identical arms' % len(a1))

    # ---------------------------------------------------------------- R17.c
    common.well_known_names(prog, rep, 'R17.c')
    common.extcom_name_consistency(prog, rep, 'R17.a')

    # ---------------------------------------------------------------- R17.d
    sites = [(f, n) for f, n in ord_int_sites(prog, 'yabgp.message.attribute')
             if f.module.name.rsplit('.', 1)[-1] in ('extcommunity', 'community', 'largecommunity')]
    for f, n in sites:
        key = 'ord-int:%s:%s' % (f.qualname, src_of(n))
        rep.bad('R17.d', key, file=f.file, line=n.lineno, func=f.qualname,
                found='%s raises TypeError under Python 3 for every input' % src_of(n), key=key)
    if not sites:
        rep.ok('R17.d', 'ord-int', file=fp.file, found='no live ord(bytes[int]) in the community decoders')

    # ---------------------------------------------------------------- R17.e
    written = {}
    for code, line in sorted(enc.items()):
        def value(st, code=code):
            item = st.new_obj('list', hint='item')
            st.heap[item.oid].items = [Const(code), Opaque('v1'), Opaque('v2')]
            lst = st.new_obj('list', hint='value')
            st.heap[lst.oid].items = [item]
            return lst
        _f, outs = codec.run(prog, EXT + '.construct', [value], {}, may_raise=False, unique='all')
        sizes = set()
        for k, v, s in outs:
            if k != 'val' or not isinstance(v, BytesV):
                continue
            items = BL.flatten(v)
            lo = hi = 0
            for p in items:
                if p[0] == 'opq' and isinstance(p[1], Opaque) and '.join(' in p[1].d:
                    a = b = 6            # MAC address: six groups (assumption, as in C07)
                elif p[0] == 'opq' and isinstance(p[1], Opaque) and p[1].d.endswith('.packed'):
                    a = b = 4            # IPv4 administrator
                else:
                    a, b = prims.bytes_len(BytesV([p]), s)
                lo += a
                hi += b
            sizes.add((lo - 3, hi - 3))
            # octets of the 8-octet community that carry a given value (not a constant of the layout)
            pos = -3
            var = set()
            for p in items:
                if p[0] == 'opq' and isinstance(p[1], Opaque) and '.join(' in p[1].d:
                    n_, isvar = 6, True
                elif p[0] == 'opq' and isinstance(p[1], Opaque) and p[1].d.endswith('.packed'):
                    n_, isvar = 4, True
                elif p[0] == 'lit':
                    n_, isvar = len(p[1]), False
                elif p[0] == 'pack':
                    fl = BL.fields([p])
                    for q in fl:
                        w_ = BL.field_size(q[1])
                        if not isinstance(q[2], Const):
                            var |= set(range(pos, pos + w_))
                        pos += w_
                    continue
                else:
                    a_, b_ = prims.bytes_len(BytesV([p]), s)
                    if a_ != b_:
                        var = None
                        break
                    n_, isvar = a_, True
                if isvar:
                    var |= set(range(pos, pos + n_))
                pos += n_
            if var is not None and isinstance(code, int) and code <= 0xffff:
                written.setdefault(code, set()).update(x for x in var if 2 <= x < 8)
        key = 'size:%s' % code
        if sizes == {(8, 8)}:
            rep.ok('R17.e', key, file=fc.file, line=line)
        elif not sizes:
            rep.undecided('R17.e', key, file=fc.file, line=line, found='no path for code %s' % code)
        else:
            rep.bad('R17.e', key, file=fc.file, line=line, func=fc.qualname,
                    found='extended community %s encodes to %s octets' % (code, sorted(sizes)), expected='8', key=key)
    read_coverage(prog, rep, written, dec)
    # ---------------------------------------------------------------- R17.h
    common.report_signed_formats(prog, rep, 'R17.h', lambda fn: fn.module.name.rsplit('.', 1)[-1] in (
        'community', 'extcommunity', 'largecommunity') and fn.module.name.startswith('yabgp.message.attribute'), 40)

    # ---------------------------------------------------------------- R17.g
    common.report_boundary_splits(
        prog, rep, 'R17.g', lambda fn: (fn.module.name.rsplit('.', 1)[-1] in ('community', 'extcommunity', 'largecommunity')
                                        and fn.module.name.startswith('yabgp.message.attribute'))
        or fn.module.name == 'yabgp.api.v1')


def read_coverage(prog, rep, written, dec_codes):
    fp = prog.func(EXT + '.parse')
    n = 0
    for code in sorted(written):
        if not written[code]:
            continue
        key = 'read:%s' % code
        val = BytesV([('lit', bytes([code >> 8, code & 255])), ('fix', 6, 'v')])
        try:
            _f, outs = codec.run(prog, EXT + '.parse', [val], {}, may_raise=False, record_slices=True)
        except AnalysisError as e:
            rep.undecided('R17.f', key, file=fp.file, line=fp.node.lineno, found=str(e))
            continue
        cov = None
        for k, v, st in outs:
            if k != 'val':
                continue
            c = set()
            for a in st.actions:
                if a.kind == 'slice' and a.meth == 'use' and a.target == 'v':
                    c |= set(range(a.args[0].value + 2, a.args[1].value + 2))
            cov = c if cov is None else (cov & c)
        if cov is None:
            rep.undecided('R17.f', key, file=fp.file, line=fp.node.lineno, found='no decoder path for this code')
            continue
        n += 1
        miss = sorted(written[code] - cov)
        if miss:
            rep.bad('R17.f', key, file=fp.file, line=fp.node.lineno, func=fp.qualname,
                    found='extended community 0x%04x: the encoder places a value in octets %s, the decoder never '
                          'reads octet(s) %s' % (code, sorted(written[code]), miss),
                    expected='every value octet is decoded', key=key)
        else:
            rep.ok('R17.f', key, file=fp.file, line=fp.node.lineno, found='octets %s read' % sorted(written[code]))
    rep.floor('R17.f', 'codes with both directions', n, 15)
