"""C01 - session state machine follows the RFC 4271 profile (DESIGN section 3, C01)."""
import ast

from ..front import AnalysisError, NotConst, src_of
from ..values import Const
from ..table import Table, ORDER
from .. import profile as P
from ..session import cval, FSM_Q, BGP_Q, PEERING_Q
from . import common

FSM_FILE = 'yabgp/core/fsm.py'


def check(prog, rep, tier):
    rep.rule('R01.g', 'the error handlers of parse_buffer read e.sub_error of the exception a decoder raised: every exception of '
                      'the NotificationSent family carries it (rule shared with C11 R11.d)')
    from .c11 import exception_carries_fields
    exception_carries_fields(prog, rep, 'R01.g')
    rep.rule('R01.a', 'every (event, state) cell of the extracted reaction table conforms to the '
                      'RFC 4271 8.2.2 profile (messages, close, next state)')
    rep.rule('R01.b', 'wire dispatch: each input class of BGP.parse_buffer raises the matching FSM '
                      'event / NOTIFICATION sub-code and the whole reaction conforms to the profile')
    rep.rule('R01.c', 'establishment typestate: OpenSent/OpenConfirm/Established are entered only by '
                      'the legitimate cells, after the required message was sent; OPEN is accepted '
                      'only after version, AS and hold-time checks')
    rep.rule('R01.e', 'environment facts the extractor relies on (single FSM per peering, '
                      'DelayOpen off, no state writer outside the event handlers)')
    rep.rule('R01.f', 'the timer primitives the table is built on (BGPTimer.reset / cancel / active) have the modelled '
                      'semantics; active() reports the reactor\'s view of the pending call')
    rep.assumptions += [
        'Twisted calls connectionMade/connectionLost/dataReceived/clientConnectionFailed/buildProtocol as documented',
        'BGPTimer.reset/cancel behave as R03.g establishes; reactor.callFromThread(f, x) runs f(x)',
        'decoder loops are abstracted to 0/1 iteration (effects inside are seen once)',
        'single-connection regime (C12 covers the rest)']
    facts = common.env_facts(prog)
    for name, ok, where, detail in facts['checks']:
        if ok:
            rep.ok('R01.e', name, file=where[0], line=where[1], found=detail)
        else:
            rep.bad('R01.e', name, file=where[0], line=where[1], found=detail, key=name,
                    expected='fact holds')
    tab = common.get_table(prog, dot_dead=facts['dot_dead'])
    rep.analysed['table_rows'] = sum(len(v) for v in tab.rows.values())
    rep.analysed['table_cells'] = len(tab.rows)
    rep.analysed['interp_paths'] = tab.model.ip.npaths

    # ------------------------------------------------------------------ R01.a
    ncell = 0
    for ev in sorted(P.PROFILE):
        if ev in ('ROUTEREFRESH', 'NOINPUT'):
            continue
        for state in ORDER:
            rows = tab.get(ev, state)
            if not rows:
                if ev.startswith('T_') and ev[2:] not in tab.model.world.timers:
                    continue
                rep.undecided('R01.a', '%s@%s' % (ev, state), found='no row extracted')
                continue
            ncell += 1
            cell = P.PROFILE[ev][state]
            if ev == 'T_delay_open' and facts['dot_dead']:
                rep.ok('R01.a', '%s@%s' % (ev, state), file=FSM_FILE, nontrivial=False,
                       found='dead: DelayOpen is off (R01.e), the timer is never armed')
                continue
            bad = None
            for r in rows:
                if r.kind == 'raise':
                    bad = (r, ['raises %s out of the entry point' % cval(r.val)], 'no exception')
                    break
                ok, probs, alt = P.evaluate(cell, r)
                if not ok:
                    bad = (r, probs, alt)
                    break
            line = common.row_line(rows[0])
            trivial = all(not r.events for r in rows)
            if bad is None:
                rep.ok('R01.a', '%s@%s' % (ev, state), file=FSM_FILE, line=line,
                       found='%d path(s) conform' % len(rows), nontrivial=not trivial,
                       path=rows[0].describe())
            else:
                r, probs, alt = bad
                rep.bad('R01.a', '%s@%s' % (ev, state), file=common.row_file(r), line=common.row_line(r),
                        func=common.row_func(r), found='; '.join(probs), expected=alt,
                        path=r.describe(), key='%s@%s' % (ev, state))
    for short in tab.model.world.timers:
        if 'T_' + short not in P.PROFILE:
            rep.undecided('R01.a', 'T_%s' % short, found='timer outside the profile vocabulary')
    rep.floor('R01.a', 'cells', ncell, 102)

    # ------------------------------------------------------------------ R01.b
    wire_classes = {}
    for state in ORDER:
        for r in tab.get('WIRE', state):
            wire_classes.setdefault((r.wire['cls'], state), []).append(r)
    seen_cls = set(c for c, _ in wire_classes)
    for need in ('BAD_MARKER', 'BAD_LEN', 'UNKNOWN_TYPE', 'OPEN', 'UPDATE', 'NOTIFICATION', 'KEEPALIVE',
                 'ROUTEREFRESH', 'SHORT'):
        if need not in seen_cls:
            rep.bad('R01.b', 'class %s' % need, file='yabgp/core/protocol.py',
                    func='BGP.parse_buffer', found='no path of parse_buffer handles this input class',
                    expected='a path exists', key='class-%s' % need)
    for (cls, state), rows in sorted(wire_classes.items()):
        name = 'WIRE:%s@%s' % (cls, state)
        bad = None
        subkinds = set()
        for r in rows:
            probs, alt = wire_row_problems(r, cls, state, subkinds)
            if probs:
                bad = (r, probs, alt)
                break
        if bad is None and cls == 'KEEPALIVE' and not {'KEEPALIVE', 'HDR_ERR'} <= subkinds:
            bad = (rows[0], ['a KEEPALIVE with a body is not rejected with header error (1,2)'
                             if 'HDR_ERR' not in subkinds else 'no path accepts a KEEPALIVE'], 'both paths')
        if bad is None and cls == 'OPEN':
            for k in ('OPEN_OK', 'OPEN_ERR'):
                if k not in subkinds:
                    bad = (rows[0], ['no OPEN path ends in %s' % k], 'both kinds of path')
        if bad is None:
            rep.ok('R01.b', name, file='yabgp/core/protocol.py', line=common.row_line(rows[0]),
                   found='%d path(s), kinds %s' % (len(rows), sorted(subkinds)))
        else:
            r, probs, alt = bad
            rep.bad('R01.b', name, file=common.row_file(r), line=common.row_line(r),
                    func=common.row_func(r), found='; '.join(probs), expected=alt, path=r.describe(), key=name)
    rep.floor('R01.b', 'wire cells', len(wire_classes), 60)

    # ------------------------------------------------------------------ R01.c
    entered = set()
    seen_keys = set()
    for (ev, state), rows in tab.rows.items():
        for r in rows:
            for a in r.actions:
                if a.kind == 'enter':
                    entered.add(a.meth)
            if r.final is None:
                rep.undecided('R01.c', '%s@%s' % (ev, state), found='final state not constant: %s' % (r.final_raw,))
                continue
            if r.final == r.pre or r.final in ('Idle', 'Connect', 'Active'):
                continue
            if ev == 'TCP_UP2' or (ev == 'TCP_UP' and state not in ('Connect', 'Active')):
                continue        # late / second connect: judged under C12/C13
            if ev == 'T_delay_open' and facts['dot_dead']:
                continue
            prob = typestate_problem(r, ev, state)
            key = 'enter-%s:%s@%s' % (r.final, ev if ev != 'WIRE' else 'WIRE:' + r.wire['cls'], state)
            if key in seen_keys and not prob:
                continue
            seen_keys.add(key)
            if prob:
                rep.bad('R01.c', key, file=common.row_file(r), line=common.row_line(r), func=common.row_func(r),
                        found=prob, expected='legitimate transition', path=r.describe(), key=key)
            else:
                rep.ok('R01.c', key, file=FSM_FILE, line=common.row_line(r))
    # OPEN acceptance is dominated by the three checks
    n_acc = 0
    for state in ORDER:
        for r in tab.get('WIRE', state):
            if r.wire['cls'] == 'OPEN' and 'open_received' in r.fsm_calls() and \
                    r.fsm_calls()[0] == 'open_received':
                n_acc += 1
                probs = open_acceptance_problems(r)
                key = 'open-accept@%s' % state
                if probs:
                    rep.bad('R01.c', key, file='yabgp/core/protocol.py', line=common.row_line(r),
                            func='BGP._open_received', found='; '.join(probs),
                            expected='version == 4, AS equal, hold time not 1/2 before fsm.open_received()',
                            path=r.describe(), key=key)
                    break
        else:
            continue
    if n_acc:
        if not any(i.rule == 'R01.c' and i.key.startswith('open-accept') and i.verdict == 'violation'
                   for i in rep.instances):
            rep.ok('R01.c', 'open-accept', file='yabgp/core/protocol.py',
                   found='%d accepting paths all pass the three checks' % n_acc)
    else:
        rep.bad('R01.c', 'open-accept', file='yabgp/core/protocol.py', found='no path accepts an OPEN',
                key='open-accept-none')
    # state writers outside the table
    for f, val, node in common.state_writers(prog):
        if f.qualname in entered or f.name == '__init__':
            continue
        if not common.has_callers(prog, f):
            rep.note('state writer %s has no caller in the package (dead code)' % f.qualname)
            continue
        sname = tab.model.state_by_val.get(val, val)
        if sname == 'Idle':
            rep.ok('R01.c', 'writer:%s' % f.qualname, file=f.file, line=node.lineno,
                   found='writes Idle only')
        else:
            rep.bad('R01.c', 'writer:%s' % f.qualname, file=f.file, line=node.lineno, func=f.qualname,
                    found='writes session state %s outside every FSM event entry point' % sname,
                    expected='state changes only in the event handlers', key='writer:%s' % f.qualname)


# ---------------------------------------------------------------------- helpers

    # the OPEN is judged against the configuration, not against what an earlier session left behind
    from .c02 import session_hold_time_rule
    from .common import get_table, env_facts
    session_hold_time_rule(get_table(prog, dot_dead=env_facts(prog)['dot_dead']), rep, 'R01.c')

    # ---------------------------------------------------------------- R01.f
    from .c03 import timer_shape
    timer_shape(prog, rep, rule='R01.f')

def _first_fsm_event(r):
    for e in r.events:
        if e[0] == 'fsm' and e[1] in ('header_error', 'open_message_error', 'open_received',
                                      'keep_alive_received', 'update_received', 'notification_received'):
            return e
    return None


def _sub_of(e):
    args, kwargs = e[2], e[3]
    v = kwargs.get('suberror', args[0] if args else None)
    return cval(v)


def wire_row_problems(r, cls, state, subkinds):
    """Problems of one parse_buffer path against the profile (input class -> FSM event -> cell)."""
    if r.kind == 'raise':
        return ['exception %s escapes parse_buffer' % cval(r.val)], 'no exception'
    first = _first_fsm_event(r)
    ret = cval(r.val)
    if first is None and cls in ('OPEN', 'NOTIFICATION', 'ROUTEREFRESH', 'UPDATE') and \
            any(f.startswith(('short-unpack@', 'opaque-raise@')) for f in r.flags):
        # a field inside the message is truncated (decoder raised, caught by parse_buffer): outside
        # the property's event alphabet; only containment is required (no state change, or a clean
        # error close)
        subkinds.add('MALFORMED')
        ok, probs, alt = P.evaluate([P.STAY(), P.TO_IDLE(1), P.TO_IDLE(2), P.TO_IDLE(3), P.TO_IDLE(5)], r)
        return probs, 'malformed body: ignore or error close'
    if cls in ('SHORT', 'INCOMPLETE'):
        ok, probs, alt = P.evaluate(P.PROFILE['NOINPUT'][state], r)
        if first is not None:
            probs = probs + ['raises FSM event %s on an incomplete message' % first[1]]
        if ret is not False:
            probs = probs + ['returns %r, expected False (wait for more data)' % (ret,)]
        return probs, 'wait for more data'
    if cls in ('BAD_MARKER', 'BAD_LEN', 'UNKNOWN_TYPE'):
        sub = {'BAD_MARKER': 1, 'BAD_LEN': 2, 'UNKNOWN_TYPE': 3}[cls]
        probs = []
        if first is None or first[1] != 'header_error':
            probs.append('first FSM event is %s, expected header_error(%d)' % (first[1] if first else None, sub))
        elif _sub_of(first) != sub:
            probs.append('header_error sub-code %s, expected %d' % (_sub_of(first), sub))
        ok, p2, alt = P.evaluate(P.hdr_cell(1, sub, state), r)
        return probs + p2, alt
    if cls == 'OPEN':
        if first is None:
            return ['OPEN raises no FSM event'], 'an FSM event'
        if first[1] == 'open_received':
            subkinds.add('OPEN_OK')
            ok, probs, alt = P.evaluate(P.PROFILE['OPEN_OK'][state], r)
            return probs, alt
        if first[1] in ('open_message_error', 'header_error'):
            subkinds.add('OPEN_ERR')
            code = 2 if first[1] == 'open_message_error' else 1
            sub = _sub_of(first)
            probs = []
            if r.wire.get('version_bad') and (code, sub) != (2, 1):
                probs.append('unsupported version answered with (%s,%s), expected (2,1)' % (code, sub))
            ok, p2, alt = P.evaluate(P.hdr_cell(code, sub, state), r)
            return probs + p2, alt
        return ['OPEN dispatched to %s' % first[1]], 'open_received / open_message_error'
    if cls == 'KEEPALIVE':
        if first is None:
            return ['KEEPALIVE raises no FSM event'], 'keep_alive_received'
        if first[1] == 'keep_alive_received':
            subkinds.add('KEEPALIVE')
            ok, probs, alt = P.evaluate(P.PROFILE['KEEPALIVE'][state], r)
            if r.wire.get('len') != (19, 19):
                probs = probs + ['a KEEPALIVE with header length in %s is accepted (only 19 is legal)'
                                 % (r.wire.get('len'),)]
            return probs, alt
        if first[1] == 'header_error':
            subkinds.add('HDR_ERR')
            probs = [] if _sub_of(first) == 2 else ['KEEPALIVE length error sub-code %s, expected 2' % _sub_of(first)]
            ok, p2, alt = P.evaluate(P.hdr_cell(1, 2, state), r)
            return probs + p2, alt
        return ['KEEPALIVE dispatched to %s' % first[1]], 'keep_alive_received'
    if cls == 'UPDATE':
        if first is None or first[1] != 'update_received':
            return ['UPDATE dispatched to %s' % (first[1] if first else None)], 'update_received'
        ok, probs, alt = P.evaluate(P.PROFILE['UPDATE'][state], r)
        return probs, alt
    if cls == 'NOTIFICATION':
        if first is None or first[1] != 'notification_received':
            return ['NOTIFICATION dispatched to %s' % (first[1] if first else None)], 'notification_received'
        ok, probs, alt = P.evaluate(P.PROFILE['NOTIF'][state], r)
        return probs, alt
    if cls == 'ROUTEREFRESH':
        ok, probs, alt = P.evaluate(P.PROFILE['ROUTEREFRESH'][state], r)
        return probs, alt
    return ['input class %s not understood' % cls], 'known class'


def typestate_problem(r, ev, state):
    kinds = [x[0] for x in r.sends()]
    cls = r.wire['cls'] if ev == 'WIRE' else None
    if r.final == 'Established':
        if not (state == 'OpenConfirm' and (ev == 'KEEPALIVE' or cls == 'KEEPALIVE')):
            return 'Established entered from %s on %s' % (state, cls or ev)
        if cls == 'KEEPALIVE' and (_first_fsm_event(r) or [None, None])[1] != 'keep_alive_received':
            return 'Established entered although the KEEPALIVE was rejected'
        return None
    if r.final == 'OpenConfirm':
        if not (state == 'OpenSent' and (ev == 'OPEN_OK' or cls == 'OPEN')):
            return 'OpenConfirm entered from %s on %s' % (state, cls or ev)
        if 'keepalive' not in kinds:
            return 'OpenConfirm entered without sending KEEPALIVE'
        return None
    if r.final == 'OpenSent':
        if state not in ('Connect', 'Active') or ev not in ('TCP_UP', 'T_delay_open'):
            return 'OpenSent entered from %s on %s' % (state, cls or ev)
        if kinds != ['open']:
            return 'OpenSent entered with sends %s' % kinds
        if not any(t[0] == 'hold' and t[1] == 'reset' for t in r.timer_ops()):
            return 'OpenSent entered without arming the (large) hold timer'
        return None
    return None


def open_acceptance_problems(r):
    probs = []
    if not r.wire.get('version_ok'):
        probs.append('version not constrained to 4 on the accepting path')
    as_ok = False
    for t, b in r.guards:
        if 'peer_asn' in t and (('==' in t and b) or ('!=' in t and not b)):
            as_ok = True
    if not as_ok:
        probs.append('no AS-number equality test on the accepting path')
    hs = r.wire.get('hold_sym')
    hold_ok = False
    if hs:
        for name, (lo, hi, neq) in r.st.cons.items():
            if hs in name:
                if lo >= 3 or hi <= 0 or (1 in neq and 2 in neq):
                    hold_ok = True
    if not hold_ok:
        probs.append('hold time 1/2 not excluded on the accepting path')
    return probs
