"""C10 - hostile peer input is contained (structural part)."""
import ast

from ..front import AnalysisError, src_of
from ..values import Const, Obj, Opaque
from ..table import ORDER
from ..session import cval, BGP_Q
from . import common

PROTO = 'yabgp/core/protocol.py'
REPORTS = {'update_received', 'on_update_error', 'open_received', 'notification_received',
           'keepalive_received', 'route_refresh_received'}


def parents(root):
    par = {}
    for n in ast.walk(root):
        for c in ast.iter_child_nodes(n):
            par[c] = n
    return par


def catch_all_try(t):
    for h in t.handlers:
        names = set()
        if h.type is None:
            names.add('*')
        else:
            for e in (h.type.elts if isinstance(h.type, ast.Tuple) else [h.type]):
                names.add(src_of(e).split('.')[-1])
        if names & {'*', 'Exception', 'BaseException'}:
            if not any(isinstance(n, ast.Raise) for n in ast.walk(ast.Module(body=h.body, type_ignores=[]))):
                return True
    return False


def inside_catch_all(fnode, node, par):
    cur = node
    while cur is not fnode and cur in par:
        p = par[cur]
        if isinstance(p, ast.Try) and any(cur is b or _contains(b, cur) for b in p.body) and catch_all_try(p):
            return True
        cur = p
    return False


def _contains(root, node):
    return any(n is node for n in ast.walk(root))


def notification_data_rule(tab, rep, rule, consequence=None):
    """The Data handed to every send_notification in the reaction table is a byte string."""
    consequence = consequence or ('Notification.construct raises TypeError inside the FSM handler, so no NOTIFICATION is '
                                  'written and the error close does not happen')
    from ..values import BytesV as _BytesV
    seen_i = {}
    ndata = 0
    for (ev, state), rows in sorted(tab.rows.items()):
        for r in rows:
            for e in r.events:
                if e[0] != 'enter_send' or e[1] != 'send_notification':
                    continue
                args, kw = e[2], e[3]
                d = kw.get('data', args[2] if len(args) > 2 else None)
                ndata += 1
                ok_ = d is None or isinstance(d, _BytesV) or (isinstance(d, Const) and isinstance(d.value, bytes)) or \
                    (isinstance(d, Opaque) and (d.kind == 'bytes' or d.d == 'data'))
                name = 'notification-data:%s@%s' % (ev if ev != 'WIRE' else 'WIRE:' + r.wire['cls'], state)
                if ok_:
                    continue
                if seen_i.get(name) != 'bad':
                    seen_i[name] = 'bad'
                    rep.bad(rule, name, file=PROTO, line=common.row_line(r), func=common.row_func(r),
                            found='the Data handed to send_notification is %s, not a byte string: '
                                  '%s' % (d.desc() if hasattr(d, 'desc') else d, consequence),
                            expected='bytes', key=name, path=r.describe())
    if not seen_i:
        rep.ok(rule, 'notification-data', found='%d NOTIFICATION sends, data is bytes in all' % ndata)
    rep.floor(rule, 'NOTIFICATION sends', ndata, 500)


def check(prog, rep, tier):
    rep.rule('R10.a', 'funnel: every decoder / per-message handler call in parse_buffer, and the FSM call in '
                      'connectionMade / connectionLost / clientConnectionFailed, lies inside a try whose '
                      'handler catches Exception and does not re-raise; no extracted path lets an exception '
                      'escape a Twisted callback')
    rep.rule('R10.b', 'at most one report to the application per well-framed message on every path, and a message that was '
                      'reported is consumed (returns True with the buffer advanced once), so the next read cannot report it again')
    rep.rule('R10.c', 'a malformed UPDATE in Established is reported once with the raw bytes, moves only the '
                      'received counter and the hold timer: no close, no NOTIFICATION, state unchanged')
    rep.rule('R10.d', 'stateless decoders: no function of yabgp/message/** writes module-level, class-level '
                      'or configuration state (registries are filled by decorators at import only)')
    rep.rule('R10.e', 'clean close: once the session is Idle (closed, restart pending) further input in the same '
                      'chunk produces no message, no second close and no state change')
    rep.rule('R10.k', 'closed cleanly with the reconnect scheduled: connectionLost after our own close arms the idle-hold '
                      'timer on every path where automatic start is allowed (rule shared with C02 R02.c)')
    rep.rule('R10.j', 'at most one report per message: no except clause of parse_buffer calls an application handler')
    rep.rule('R10.i', 'the Data field of every NOTIFICATION the agent builds is a byte string (a decoded integer handed over '
                      'as data makes the constructor raise inside the error handler)')
    rep.rule('R10.h', 'a header that violates the framing rules (marker, length outside [19,4096], unknown type) is '
                      'answered at once in every state; no header is left undecided (waiting for octets that a '
                      'bogus length announces)')
    rep.rule('R10.g', 'a well-framed message whose decoder raises is still consumed (it must not change how the '
                      'messages after it are decoded)')
    rep.rule('R10.f', 'no endless loop in the OPEN decoder and in the NLRI decoders (loop progress, as C11 R11.a; the attribute and '
                      'TLV decoders are C11)')
    rep.assumptions += ['resource exhaustion other than non-termination (C11) is not decided',
                        'struct.unpack on truncated data and the opaque Update.parse/construct are modelled as '
                        'possibly raising; other library calls are assumed not to raise']
    facts = common.env_facts(prog)
    tab = common.get_table(prog, dot_dead=facts['dot_dead'])
    bgp = prog.cls(BGP_Q)

    # ---------------------------------------------------------------- R10.a (AST)
    pb = bgp.find_method('parse_buffer')
    par = parents(pb.node)
    n = 0
    for node in ast.walk(pb.node):
        if isinstance(node, ast.Call) and isinstance(node.func, ast.Attribute):
            a = node.func.attr
            if (a.startswith('_') and a.endswith('_received')) or a == 'parse':
                n += 1
                key = 'parse_buffer:%s' % src_of(node.func)
                if inside_catch_all(pb.node, node, par):
                    rep.ok('R10.a', key, file=pb.file, line=node.lineno)
                else:
                    rep.bad('R10.a', key, file=pb.file, line=node.lineno, func=pb.qualname,
                            found='%s is called outside a catch-all try' % src_of(node.func),
                            expected='inside try ... except Exception (no re-raise)', key=key)
    rep.floor('R10.a', 'decoder/handler calls in parse_buffer', n, 7)
    for qual, callee in (('yabgp.core.protocol.BGP.connectionMade', 'connection_made'),
                         ('yabgp.core.protocol.BGP.connectionLost', 'connection_failed'),
                         ('yabgp.core.factory.BGPPeering.clientConnectionFailed', 'connection_failed')):
        f = prog.func(qual)
        par = parents(f.node)
        calls = [x for x in ast.walk(f.node) if isinstance(x, ast.Call) and isinstance(x.func, ast.Attribute)
                 and x.func.attr == callee]
        key = '%s:%s' % (f.name, callee)
        if not calls:
            rep.bad('R10.a', key, file=f.file, line=f.node.lineno, func=f.qualname,
                    found='no call of fsm.%s' % callee, key=key)
        elif all(inside_catch_all(f.node, c, par) for c in calls):
            rep.ok('R10.a', key, file=f.file, line=calls[0].lineno)
        else:
            rep.bad('R10.a', key, file=f.file, line=calls[0].lineno, func=f.qualname,
                    found='fsm.%s called outside a catch-all try' % callee, key=key)
    # table: nothing escapes
    seen = {}
    for (ev, state), rows in sorted(tab.rows.items()):
        if ev in ('MSTART', 'MSTART_HOLD', 'MSTOP') or ev.startswith('T_') or ev in (
                'OPEN_OK', 'HDR_ERR', 'OPEN_ERR', 'NOTIF', 'NOTIF_VER', 'KEEPALIVE', 'UPDATE'):
            continue
        for r in rows:
            name = 'escape:%s@%s' % (ev if ev != 'WIRE' else 'WIRE:' + r.wire['cls'], state)
            if r.kind == 'raise':
                if seen.get(name) != 'bad':
                    seen[name] = 'bad'
                    rep.bad('R10.a', name, file=common.row_file(r), line=common.row_line(r),
                            func=common.row_func(r), found='exception %s escapes the callback' % cval(r.val),
                            expected='contained', key=name, path=r.describe())
            elif name not in seen:
                seen[name] = 'ok'
                rep.ok('R10.a', name, file=PROTO, line=common.row_line(r), nontrivial=False)

    # ---------------------------------------------------------------- R10.b / R10.c
    seen = {}
    nrows = 0
    both = {'error': False, 'ok': False}
    for state in ORDER:
        for r in tab.get('WIRE', state):
            nrows += 1
            cls = r.wire['cls']
            reps = [h for h in r.handler_calls() if h in REPORTS]
            name = 'reports:%s@%s' % (cls, state)
            lim = 1
            if 'while-truncated' in r.flags or 'merged' in r.flags:
                pass
            if len(reps) > lim:
                if seen.get(name) != 'bad':
                    seen[name] = 'bad'
                    rep.bad('R10.b', name, file=common.row_file(r), line=common.row_line(r),
                            func=common.row_func(r), found='%d reports on one path: %s' % (len(reps), reps),
                            expected='at most one', key=name, path=r.describe())
            elif name not in seen:
                seen[name] = 'ok'
                rep.ok('R10.b', name, file=PROTO, line=common.row_line(r), nontrivial=bool(reps))
            # a reported message is consumed: one left at the head of the buffer is decoded and reported again
            # by the next dataReceived
            hdr_err = any(e[0] == 'fsm' and e[1] == 'header_error' for e in r.events)
            if reps and r.kind != 'raise' and not hdr_err:      # (a header error = not a well-framed message)
                name2 = 'reported-consumed:%s@%s' % (cls, state)
                bw = [w for w in r.st.writes if w[1] == '_receive_buffer']
                if cval(r.val) is True and len(bw) == 1:
                    if name2 not in seen:
                        seen[name2] = 'ok'
                        rep.ok('R10.b', name2, file=PROTO, line=common.row_line(r))
                elif seen.get(name2) != 'bad':
                    seen[name2] = 'bad'
                    rep.bad('R10.b', name2, file=common.row_file(r), line=common.row_line(r), func='BGP.parse_buffer',
                            found='%s handed to the application, then parse_buffer returns %r having consumed the '
                                  'message %d time(s): it stays at the head of the receive buffer and is reported '
                                  'again on the next read' % (reps, cval(r.val), len(bw)),
                            expected='a reported message is removed from the buffer', key=name2, path=r.describe())
            if cls == 'UPDATE' and state == 'Established':
                if 'on_update_error' in reps:
                    both['error'] = True
                    probs = []
                    if r.sends():
                        probs.append('sends %s' % (r.sends(),))
                    if r.closes():
                        probs.append('closes the connection')
                    if r.final != 'Established':
                        probs.append('ends in %s' % r.final)
                    hexok = False
                    for e in r.events:
                        if e[0] == 'handler' and e[1] == 'on_update_error':
                            for a in e[2]:
                                if isinstance(a, Obj) and r.st.heap[a.oid].kind == 'dict' and \
                                        'hex' in r.st.heap[a.oid].items:
                                    hexok = True
                    if not hexok:
                        probs.append('the report does not carry the raw bytes (key "hex")')
                    resets = [t for t in r.timer_ops() if t[1] == 'reset']
                    if any(t[0] != 'hold' for t in resets):
                        probs.append('re-arms %s' % [t[0] for t in resets])
                    key = 'malformed-update@Established'
                    if probs:
                        if seen.get(key) != 'bad':
                            seen[key] = 'bad'
                            rep.bad('R10.c', key, file=PROTO, line=common.row_line(r), func='BGP._update_received',
                                    found='; '.join(probs), expected='report once, session untouched', key=key,
                                    path=r.describe())
                    elif key not in seen:
                        seen[key] = 'ok'
                        rep.ok('R10.c', key, file=PROTO, line=common.row_line(r))
                elif 'update_received' in reps:
                    both['ok'] = True
    rep.floor('R10.b', 'parse_buffer paths', nrows, 300)
    if not both['error']:
        rep.bad('R10.c', 'malformed-update-path', file=PROTO, func='BGP._update_received',
                found='no path reports a malformed UPDATE through on_update_error',
                expected='a sub_error path', key='malformed-update-path')
    if not both['ok']:
        rep.bad('R10.c', 'update-path', file=PROTO, func='BGP._update_received',
                found='no path delivers a decoded UPDATE', key='update-path')
    else:
        rep.ok('R10.c', 'update-path', file=PROTO)

    # ---------------------------------------------------------------- R10.j
    pbf = prog.func('yabgp.core.protocol.BGP.parse_buffer')
    rep_in_handler = []
    nh_ = 0
    for t_ in [n for n in ast.walk(pbf.node) if isinstance(n, ast.Try)]:
        for h_ in t_.handlers:
            nh_ += 1
            for c_ in ast.walk(ast.Module(body=h_.body, type_ignores=[])):
                if isinstance(c_, ast.Call) and src_of(c_.func).startswith('self.handler.'):
                    rep_in_handler.append((h_, c_))
    if rep_in_handler:
        h_, c_ = rep_in_handler[0]
        rep.bad('R10.j', 'report-in-except', file=pbf.file, line=c_.lineno, func=pbf.qualname,
                found='%s is called from an except clause of parse_buffer: when the exception came from the application '
                      'callback itself (after it was handed the message) the same message is reported a second time'
                      % src_of(c_.func), expected='one report per message: handlers of parse_buffer only log / tell the FSM',
                key='report-in-except')
    else:
        rep.ok('R10.j', 'report-in-except', file=pbf.file, line=pbf.node.lineno, found='%d except clauses' % nh_)

    # ---------------------------------------------------------------- R10.i
    notification_data_rule(tab, rep, 'R10.i')

    # ---------------------------------------------------------------- R10.h
    from .. import profile as P
    seen_h = {}
    for state in ORDER:
        for r in tab.get('WIRE', state):
            cls_ = r.wire['cls']
            if r.kind == 'raise':
                continue
            if cls_ in ('AMBIGUOUS', 'AMBIGUOUS_LEN'):
                name = 'undecided-header@%s' % state
                if seen_h.get(name) != 'bad':
                    seen_h[name] = 'bad'
                    rep.bad('R10.h', name, file=PROTO, line=common.row_line(r), func='BGP.parse_buffer',
                            found='a header whose length (%s) / type (%s) is outside the legal range is neither rejected '
                                  'nor dispatched on this path: the agent waits for more input and swallows what follows'
                                  % (r.wire.get('len'), r.wire.get('type')),
                            expected='NOTIFICATION (1,2) / (1,3) and close as soon as the header is complete',
                            key=name, path=r.describe())
            elif cls_ in ('BAD_MARKER', 'BAD_LEN', 'UNKNOWN_TYPE'):
                sub = {'BAD_MARKER': 1, 'BAD_LEN': 2, 'UNKNOWN_TYPE': 3}[cls_]
                okp, probs, alt = P.evaluate(P.hdr_cell(1, sub, state), r)
                name = 'header-answer:%s@%s' % (cls_, state)
                if okp:
                    if name not in seen_h:
                        seen_h[name] = 'ok'
                        rep.ok('R10.h', name, file=PROTO, line=common.row_line(r))
                elif seen_h.get(name) != 'bad':
                    seen_h[name] = 'bad'
                    rep.bad('R10.h', name, file=PROTO, line=common.row_line(r), func='BGP.parse_buffer',
                            found='; '.join(probs), expected=alt, key=name, path=r.describe())
    if not seen_h:
        rep.undecided('R10.h', 'header-answer', found='no header-violation rows')

    # ---------------------------------------------------------------- R10.g
    seen_g = {}
    for state in ORDER:
        for r in tab.get('WIRE', state):
            if r.kind == 'raise' or r.wire['cls'] not in ('OPEN', 'UPDATE', 'NOTIFICATION', 'ROUTEREFRESH', 'KEEPALIVE'):
                continue
            raised = any(f.startswith(('short-unpack@', 'opaque-raise@')) for f in r.flags)
            errev = any(e[0] == 'fsm' and e[1] in ('header_error', 'open_message_error') for e in r.events)
            if not raised or errev:
                continue
            name = 'consumed-after-raise:%s@%s' % (r.wire['cls'], state)
            bw = [w for w in r.st.writes if w[1] == '_receive_buffer']
            ret = cval(r.val)
            if ret is True and len(bw) == 1:
                if name not in seen_g:
                    seen_g[name] = 'ok'
                    rep.ok('R10.g', name, file=PROTO, line=common.row_line(r))
            elif seen_g.get(name) != 'bad':
                seen_g[name] = 'bad'
                rep.bad('R10.g', name, file=PROTO, line=common.row_line(r), func='BGP.parse_buffer',
                        found='the decoder raised on this message; parse_buffer returns %r and consumes it %d time(s): '
                              'the message stays at the head of the buffer and every later message is stuck behind it'
                              % (ret, len(bw)), expected='consume the message, return True', key=name, path=r.describe())
    if not seen_g:
        rep.undecided('R10.g', 'consumed-after-raise', found='no row in which a decoder raises')

    # ---------------------------------------------------------------- R10.k
    from .c02 import closed_rearms_rule
    closed_rearms_rule(tab, rep, 'R10.k')

    # ---------------------------------------------------------------- R10.e
    from .. import profile as P
    seen_e = {}
    for r in tab.get('WIRE', 'Idle'):
        name = 'idle-silent:%s' % r.wire['cls']
        if r.kind == 'raise':
            continue
        okp, probs, alt = P.evaluate([P.IGNORE], r)
        if okp:
            if name not in seen_e:
                seen_e[name] = 'ok'
                rep.ok('R10.e', name, file=PROTO, line=common.row_line(r))
        elif seen_e.get(name) != 'bad':
            seen_e[name] = 'bad'
            rep.bad('R10.e', name, file=common.row_file(r), line=common.row_line(r), func=common.row_func(r),
                    found='input processed after the session was closed (state Idle): ' + '; '.join(probs),
                    expected='ignored', key=name, path=r.describe())
    # ---------------------------------------------------------------- R10.f
    from . import c11
    for f2 in prog.all_functions():
        # the OPEN decoder and the NLRI decoders an UPDATE reaches (the attribute / TLV decoders are C11's)
        if f2.module.name != 'yabgp.message.open' and not f2.module.name.startswith('yabgp.message.attribute.nlri'):
            continue
        ws = [n for n in ast.walk(f2.node) if isinstance(n, ast.While)]
        if not ws:
            continue
        obs = {id(w): [] for w in ws}
        err = c11.analyse(prog, f2, ws, obs, 8)
        for i, w in enumerate(sorted(ws, key=lambda n: n.lineno)):
            key = 'loop:%s#%d' % (f2.qualname, i)
            if err:
                rep.undecided('R10.f', key, file=f2.file, line=w.lineno, found=err)
                continue
            badp = None
            for res, path in obs[id(w)]:
                if not any(x[1] == 'yes' for x in res):
                    badp = (res, path)
            if badp:
                rep.bad('R10.f', key, file=f2.file, line=w.lineno, func=f2.qualname,
                        found='a path returns to `while %s` without consuming input: %s' % (
                            src_of(w.test), '; '.join('%s: %s' % (x[0], x[2]) for x in badp[0])),
                        expected='every iteration advances', key=key,
                        path=[('%s' if b else 'not (%s)') % t for t, b in badp[1]])
            else:
                rep.ok('R10.f', key, file=f2.file, line=w.lineno, found='%d back-edge path(s)' % len(obs[id(w)]))

    # ---------------------------------------------------------------- R10.d
    nfun, found = shared_state_writes(prog, lambda f: f.module.name.startswith('yabgp.message'))
    for f, node, bad in found:
        key = 'state:%s:%s' % (f.qualname, bad)
        rep.bad('R10.d', key, file=f.file, line=node.lineno, func=f.qualname, found=bad,
                expected='decoders keep no state between messages', key=key)
    rep.floor('R10.d', 'functions of yabgp.message scanned', nfun, 200)
    if not any(i.rule == 'R10.d' for i in rep.instances):
        rep.ok('R10.d', 'yabgp.message', file='yabgp/message/', found='%d functions scanned, none writes shared state' % nfun)


def shared_state_writes(prog, select, allow_memo=False):
    """Functions that write module-level, class-level or configuration state.
    -> (number of functions scanned, [(FuncInfo, node, description)])"""
    out = []
    nfun = 0
    for f in prog.all_functions():
        if not select(f):
            continue
        nfun += 1
        mod_names = set(f.module.assigns) | set(f.module.classes)
        local = set(f.params) - {'cls'}
        for node in ast.walk(f.node):
            if isinstance(node, (ast.Assign, ast.AugAssign, ast.AnnAssign)):
                tgts = node.targets if isinstance(node, ast.Assign) else [node.target]
                for t in tgts:
                    for tt in (t.elts if isinstance(t, (ast.Tuple, ast.List)) else [t]):
                        if isinstance(tt, ast.Name):
                            local.add(tt.id)
            elif isinstance(node, (ast.For, ast.comprehension)):
                for tt in ast.walk(node.target):
                    if isinstance(tt, ast.Name):
                        local.add(tt.id)
            elif isinstance(node, ast.ExceptHandler) and node.name:
                local.add(node.name)
        is_register = f.name in ('register', 'decorator', 'wrapper', '_register') or \
            any(isinstance(n, ast.FunctionDef) for n in ast.walk(f.node) if n is not f.node) and \
            'register' in f.name
        for node in ast.walk(f.node):
            bad = None
            if isinstance(node, ast.Global):
                bad = 'global %s' % ', '.join(node.names)
            tgts = []
            if isinstance(node, ast.Assign):
                tgts = node.targets
            elif isinstance(node, (ast.AugAssign, ast.AnnAssign)):
                tgts = [node.target]
            for t in tgts:
                base = t
                while isinstance(base, (ast.Subscript, ast.Attribute)):
                    root = base.value
                    if isinstance(root, ast.Name) and root.id not in local:
                        if root.id == 'cls' or root.id in mod_names or root.id in f.module.imports:
                            if not (isinstance(base, ast.Attribute) and root.id == 'self'):
                                bad = 'writes %s' % src_of(t)
                    base = root
            if isinstance(node, ast.Call) and isinstance(node.func, ast.Attribute) and \
                    node.func.attr in ('append', 'update', 'pop', 'clear', 'setdefault', 'extend', 'insert',
                                       'remove', '__setitem__'):
                root = node.func.value
                while isinstance(root, (ast.Subscript, ast.Attribute)):
                    root = root.value
                if isinstance(root, ast.Name) and root.id not in local and \
                        (root.id in mod_names or root.id in f.module.imports or root.id == 'cls'):
                    bad = 'mutates %s' % src_of(node.func.value)
            if bad and allow_memo and isinstance(node, ast.Assign) and len(node.targets) == 1 and \
                    isinstance(node.targets[0], ast.Subscript):
                # a memo table keyed by the complete argument(s): the stored value is a function of the key, so
                # later calls see what they would have computed themselves
                k = node.targets[0].slice
                ks = k.elts if isinstance(k, ast.Tuple) else [k]
                params = [p for p in f.params if p not in ('self', 'cls')]
                rebound = set()
                for n2 in ast.walk(f.node):
                    if isinstance(n2, (ast.Assign, ast.AugAssign)):
                        for t2 in (n2.targets if isinstance(n2, ast.Assign) else [n2.target]):
                            for x in ast.walk(t2):
                                if isinstance(x, ast.Name) and isinstance(x.ctx, ast.Store):
                                    rebound.add(x.id)
                if ks and all(isinstance(x, ast.Name) and x.id in params and x.id not in rebound for x in ks) and \
                        set(x.id for x in ks) == set(params):
                    bad = None
            if bad and not is_register:
                out.append((f, node, bad))
    return nfun, out
