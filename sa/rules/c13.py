"""C13 - operator stop is final until operator start (structural part)."""
import ast

from ..front import AnalysisError, src_of
from ..values import Const
from ..table import ORDER
from ..session import cval
from . import common
from .c02 import allow_of, ALLOW_ATOM

FSM_FILE = 'yabgp/core/fsm.py'


def check(prog, rep, tier):
    rep.rule('R13.e', 'who may start manually: manual_start is referenced (called or handed over as a callback) only by the '
                      'REST layer and by BGPPeering itself; everything the agent schedules on its own goes through '
                      'automatic_start, which honours the operator flag')
    manual_start_callers(prog, rep)
    rep.rule('R13.a', 'manual stop in every state: Cease iff Established, every BGPTimer off, connection '
                      'closed, automatic start forbidden, Idle')
    rep.rule('R13.b', 'Idle-exit gate: a path leaves Idle (or emits a BGP message from Idle) only on manual '
                      'start or under a test of allow_automatic_start')
    rep.rule('R13.c', 'from Idle (where a stopped peer sits; allow False implies Idle by R13.a/R13.b/R02.d) every TCP '
                      'connect started by a non-operator event is guarded by allow_automatic_start')
    rep.rule('R13.d', 'manual start: sets the flag and connects at once from Idle, no effect in other '
                      'states, "EST" when Established; the REST view passes no idle-hold argument')
    rep.assumptions += ['thread-safety of the REST worker thread calling into the reactor-owned FSM is not decided',
                        'timing clauses are not decided']
    facts = common.env_facts(prog)
    tab = common.get_table(prog, dot_dead=facts['dot_dead'])
    rep.analysed['table_rows'] = sum(len(v) for v in tab.rows.values())
    timers = sorted(tab.model.world.timers)

    # ---------------------------------------------------------------- R13.a
    for state in ORDER:
        rows = tab.get('MSTOP', state)
        key = 'MSTOP@%s' % state
        bad = None
        for r in rows:
            probs = []
            s = r.sends()
            if state == 'Established':
                if not (len(s) == 1 and s[0][0] == 'notification' and s[0][1] == 6):
                    probs.append('sends %s, expected Cease' % (s,))
            elif any(x[0] != 'notification' or x[1] != 6 for x in s):
                probs.append('sends %s' % (s,))
            for t in timers:
                fin = r.timer_final(t)
                status_false = any(g == ('truth(status(%s))' % t, False) for g in r.guards)
                if fin == 'armed' or (fin == 'unknown' and not status_false):
                    probs.append('timer %s may stay armed' % t)
            if r.regime == 'live' and not r.closes():
                probs.append('connection not closed')
            if r.final != 'Idle':
                probs.append('ends in %s' % r.final)
            a = r.field('fsm', 'allow_automatic_start')
            if not (isinstance(a, Const) and a.value is False):
                probs.append('allow_automatic_start = %s after stop' % cval(a))
            if r.connects():
                probs.append('starts a TCP connect')
            if cval(r.val) is not True:
                probs.append('returns %r (REST reports failure)' % (cval(r.val),))
            if probs:
                bad = (r, probs)
                break
        if bad or not rows:
            r, probs = bad if bad else (None, ['no row'])
            rep.bad('R13.a', key, file=FSM_FILE, line=common.row_line(r) if r else None,
                    func='FSM.manual_stop', found='; '.join(probs),
                    expected='Cease iff Established, all timers off, close, allow:=False, Idle',
                    key=key, path=r.describe() if r else None)
        else:
            rep.ok('R13.a', key, file=FSM_FILE, line=common.row_line(rows[0]),
                   found='%d path(s) (timer-status forks)' % len(rows))

    # ---------------------------------------------------------------- R13.b / R13.c
    seen = {}
    nchk = 0
    for (ev, state), rows in sorted(tab.rows.items()):
        if ev in ('MSTART', 'MSTART_HOLD', 'TCP_UP2'):
            continue
        if ev == 'T_delay_open' and facts['dot_dead']:
            continue
        for r in rows:
            name = '%s@%s' % (ev if ev != 'WIRE' else 'WIRE:' + r.wire['cls'], state)
            gated = allow_of(r) is True
            if state == 'Idle':
                nchk += 1
                leaves = r.final not in ('Idle', None)
                emits = bool(r.sends())
                if (leaves or emits) and not gated:
                    if seen.get(('b', name)) != 'bad':
                        seen[('b', name)] = 'bad'
                        rep.bad('R13.b', name, file=common.row_file(r), line=common.row_line(r),
                                func=common.row_func(r),
                                found='from Idle with no test of allow_automatic_start: %s%s' % (
                                    ('leaves Idle for %s' % r.final) if leaves else '',
                                    (' sends %s' % (r.sends(),)) if emits else ''),
                                expected='stay Idle and silent unless automatic start is allowed',
                                key=name, path=r.describe())
                elif ('b', name) not in seen:
                    seen[('b', name)] = 'ok'
                    rep.ok('R13.b', name, file=common.row_file(r), line=common.row_line(r),
                           nontrivial=bool(leaves or emits))
            if r.connects() and state == 'Idle':
                if not gated:
                    if seen.get(('c', name)) != 'bad':
                        seen[('c', name)] = 'bad'
                        rep.bad('R13.c', name, file=common.row_file(r), line=common.row_line(r),
                                func=common.row_func(r),
                                found='connectTCP reached without a test of allow_automatic_start '
                                      '(guards: %s)' % r.guard_text()[:200],
                                expected='guarded by allow_automatic_start', key=name, path=r.describe())
                elif ('c', name) not in seen:
                    seen[('c', name)] = 'ok'
                    rep.ok('R13.c', name, file=common.row_file(r), line=common.row_line(r))
    rep.floor('R13.b', 'paths from Idle', nchk, 100)
    if not any(k[0] == 'c' for k in seen):
        rep.undecided('R13.c', 'connect-sites', found='no non-operator path starts a connect')

    # ---------------------------------------------------------------- R13.d
    for state in ORDER:
        rows = tab.get('MSTART', state)
        key = 'MSTART@%s' % state
        probs = []
        for r in rows:
            if state == 'Idle':
                a = r.field('fsm', 'allow_automatic_start')
                if not (isinstance(a, Const) and a.value is True):
                    probs.append('allow_automatic_start = %s after start' % cval(a))
                if not r.connects() or r.final != 'Connect':
                    probs.append('does not connect at once (final %s)' % r.final)
                if cval(r.val) is not True:
                    probs.append('returns %r' % (cval(r.val),))
            else:
                if r.events and any(e[0] in ('write', 'close', 'connectTCP', 'timer') for e in r.events):
                    probs.append('has effects %s' % r.ordered())
                if r.final != state:
                    probs.append('changes state to %s' % r.final)
                if state == 'Established' and cval(r.val) != 'EST':
                    probs.append('returns %r, expected "EST"' % (cval(r.val),))
            if probs:
                break
        if probs or not rows:
            rep.bad('R13.d', key, file='yabgp/core/factory.py', func='BGPPeering.manual_start',
                    found='; '.join(probs) or 'no row', key=key)
        else:
            rep.ok('R13.d', key, file='yabgp/core/factory.py', found='%d path(s)' % len(rows))
    # the deferred start (idle_hold=True): nothing is dialled yet, the idle-hold timer runs and automatic start is
    # allowed again - otherwise the expiry of that timer is ignored and the peer never comes back
    rows = tab.get('MSTART_HOLD', 'Idle')
    probs = []
    for r in rows:
        a = r.field('fsm', 'allow_automatic_start')
        if not (isinstance(a, Const) and a.value is True):
            probs.append('allow_automatic_start = %s after manual_start(idle_hold=True): the idle-hold expiry is '
                         'ignored' % cval(a))
        if r.timer_final('idle_hold') != 'armed':
            probs.append('the idle-hold timer is not running')
        if r.connects() or r.final != 'Idle':
            probs.append('connects at once / leaves Idle (final %s)' % r.final)
        if probs:
            break
    if probs or not rows:
        rep.bad('R13.d', 'MSTART_HOLD@Idle', file='yabgp/core/fsm.py', func='FSM.manual_start',
                found='; '.join(probs) or 'no row', key='MSTART_HOLD@Idle')
    else:
        rep.ok('R13.d', 'MSTART_HOLD@Idle', file='yabgp/core/fsm.py', found='%d path(s)' % len(rows))
    # REST view -> factory.manual_start() with no idle_hold
    f = prog.func('yabgp.api.utils.manual_start')
    calls = [n for n in ast.walk(f.node) if isinstance(n, ast.Call) and isinstance(n.func, ast.Attribute)
             and n.func.attr == 'manual_start']
    if len(calls) == 1 and not calls[0].args and not calls[0].keywords:
        rep.ok('R13.d', 'rest-manual_start', file=f.file, line=calls[0].lineno, found=src_of(calls[0]))
    else:
        rep.bad('R13.d', 'rest-manual_start', file=f.file, line=f.node.lineno,
                found='%d call(s) of manual_start: %s' % (len(calls), [src_of(c) for c in calls]),
                expected='factory.manual_start() with no idle-hold', key='rest-manual_start')
    f = prog.func('yabgp.api.utils.manual_stop')
    calls = [n for n in ast.walk(f.node) if isinstance(n, ast.Call) and isinstance(n.func, ast.Attribute)
             and n.func.attr == 'manual_stop']
    uncond = len(calls) == 1 and not common.conds_at(f.node, calls[0])
    if len(calls) == 1 and not uncond:
        cs = common.conds_at(f.node, calls[0])
        rep.bad('R13.d', 'rest-manual_stop', file=f.file, line=calls[0].lineno, func=f.qualname,
                found='the REST helper reaches factory.manual_stop() only when %s: in the other case the operator '
                      'is told the peer is stopped while the operator flag is never cleared and pending restart '
                      'timers keep running' % ' and '.join(('' if v else 'not ') + '(' + src_of(t) + ')' for t, v in cs),
                expected='factory.manual_stop() on every request', key='rest-manual_stop')
    elif len(calls) == 1:
        rep.ok('R13.d', 'rest-manual_stop', file=f.file, line=calls[0].lineno, found=src_of(calls[0]))
    else:
        rep.bad('R13.d', 'rest-manual_stop', file=f.file, line=f.node.lineno,
                found='%d call(s) of manual_stop' % len(calls), key='rest-manual_stop')



def manual_start_callers(prog, rep):
    import ast
    from ..front import src_of
    n = 0
    bad = []
    for f in prog.all_functions():
        for x in ast.walk(f.node):
            if isinstance(x, ast.Attribute) and x.attr == 'manual_start' and isinstance(x.ctx, ast.Load):
                n += 1
                mod = f.module.name
                ok = mod.startswith('yabgp.api.') or (mod == 'yabgp.core.factory' and f.name == 'manual_start')
                if not ok:
                    bad.append((f, x))
    for f, x in bad:
        key = 'manual-start-ref:%s' % f.qualname
        rep.bad('R13.e', key, file=f.file, line=x.lineno, func=f.qualname,
                found='%s references %s: a start scheduled by the agent itself re-enables automatic start and '
                      'connects, overriding an operator stop given in the meantime' % (f.qualname, src_of(x)),
                expected='automatic_start for everything that is not an operator request', key=key)
    if not bad:
        rep.ok('R13.e', 'manual-start-refs', found='%d reference(s), all in the REST layer / BGPPeering.manual_start' % n)
    rep.floor('R13.e', 'manual_start references', n, 3)
