"""C05 - each session's OPEN and its acceptance policy depend only on configuration."""
import ast

from ..front import AnalysisError, NotConst, src_of, ClassInfo
from ..values import Const, Sym, Opaque, Obj, BytesV, State, FuncV, INF
from ..interp import Interp
from .. import prims
from ..table import ORDER
from ..session import cval, BGP_Q, FSM_Q, PEERING_Q
from . import common

PROTO = 'yabgp/core/protocol.py'
CONFIG_MODULES = ('yabgp.config', 'yabgp.agent')
RECV_TYPES = {'fsm': FSM_Q, 'factory': PEERING_Q, 'bgp_peering': PEERING_Q, 'protocol': BGP_Q,
              'estab_protocol': BGP_Q}


def typed_stores(prog):
    """(class qualname | None, attr, FuncInfo, stmt, guard-texts) for every attribute store."""
    out = []
    for f in prog.all_functions():
        par = {}
        for n in ast.walk(f.node):
            for c in ast.iter_child_nodes(n):
                par[c] = n
        for st in ast.walk(f.node):
            tgts = []
            if isinstance(st, ast.Assign):
                tgts = st.targets
            elif isinstance(st, (ast.AugAssign, ast.AnnAssign)):
                tgts = [st.target]
            for t in tgts:
                for tt in (t.elts if isinstance(t, (ast.Tuple, ast.List)) else [t]):
                    if not isinstance(tt, ast.Attribute):
                        continue
                    recv = tt.value
                    cls = None
                    if isinstance(recv, ast.Name) and recv.id == 'self' and f.cls is not None:
                        cls = f.cls.qualname
                    elif isinstance(recv, ast.Attribute) and recv.attr in RECV_TYPES:
                        cls = RECV_TYPES[recv.attr]
                    elif isinstance(recv, ast.Name) and recv.id in ('protocol', 'pro', 'p') and \
                            f.cls is not None and f.cls.qualname == PEERING_Q:
                        cls = BGP_Q
                    guards = []
                    cur = st
                    while cur in par:
                        p = par[cur]
                        if isinstance(p, (ast.If, ast.While)) and cur in p.body:
                            guards.append(src_of(p.test))
                        elif isinstance(p, ast.For) and cur in p.body:
                            guards.append('for %s in %s' % (src_of(p.target), src_of(p.iter)))
                        cur = p
                    out.append((cls, tt.attr, f, st, guards))
    return out


def asn4_fidelity(prog, rep, rule):
    """Inside the AS_PATH / AGGREGATOR codecs the width decided by the session (parameter asn4) is what every nested
    call receives."""
    n = 0
    bad = None
    for f in prog.all_functions():
        if f.module.name not in ('yabgp.message.attribute.aspath', 'yabgp.message.attribute.aggregator',
                                 'yabgp.message.attribute.as4path', 'yabgp.message.attribute.as4aggregator') \
                or 'asn4' not in f.params:
            continue
        for c in ast.walk(f.node):
            if not isinstance(c, ast.Call) or not isinstance(c.func, ast.Attribute) or \
                    src_of(c.func.value) not in ('cls', 'self') or f.cls is None:
                continue
            g = f.cls.find_method(c.func.attr)
            if g is None or 'asn4' not in g.params:
                continue
            n += 1
            pos = [p for p in g.params if p not in ('cls', 'self')].index('asn4')
            arg = None
            for k in c.keywords:
                if k.arg == 'asn4':
                    arg = k.value
            if arg is None and pos < len(c.args):
                arg = c.args[pos]
            if arg is None or not (isinstance(arg, ast.Name) and arg.id == 'asn4'):
                bad = bad or (f, c, arg)
        # the parameter is not rebound either
        for a in ast.walk(f.node):
            if isinstance(a, (ast.Assign, ast.AugAssign)):
                for t in (a.targets if isinstance(a, ast.Assign) else [a.target]):
                    if isinstance(t, ast.Name) and t.id == 'asn4':
                        bad = bad or (f, a, None)
    key = 'asn4-fidelity'
    if bad:
        f, c, arg = bad
        rep.bad(rule, key, file=f.file, line=c.lineno, func=f.qualname,
                found='%s: the AS-number width handed on is %s, not the asn4 the session negotiated - the attribute is '
                      'decoded in a mode the session does not use' % (src_of(c)[:70], src_of(arg) if arg is not None else 'rebound / defaulted'),
                expected='asn4 passed through unchanged', key=key)
    else:
        rep.ok(rule, key, found='%d nested call(s) pass asn4 on' % n, nontrivial=bool(n))


def four_octet_flag_rule(prog, rep, rule):
    """_open_received switches to 4-octet encoding when the key 'four_bytes_as' is present in the decoded capability
    set, whatever its value: the decoder may store the key only with the value True."""
    n = 0
    bad = None
    for f in prog.all_functions():
        if f.module.name != 'yabgp.message.open':
            continue
        for x in ast.walk(f.node):
            val = None
            if isinstance(x, ast.Assign) and isinstance(x.targets[0], ast.Subscript) and \
                    isinstance(x.targets[0].slice, ast.Constant) and x.targets[0].slice.value == 'four_bytes_as' and \
                    'capa_dict' in src_of(x.targets[0].value):
                val = x.value
            elif isinstance(x, ast.Call) and isinstance(x.func, ast.Attribute) and x.func.attr in ('setdefault',) and \
                    'capa_dict' in src_of(x.func.value) and x.args and isinstance(x.args[0], ast.Constant) and \
                    x.args[0].value == 'four_bytes_as':
                val = x.args[1] if len(x.args) > 1 else ast.Constant(value=None)
            elif isinstance(x, ast.Call) and isinstance(x.func, ast.Attribute) and x.func.attr == 'update' and \
                    'capa_dict' in src_of(x.func.value) and 'four_bytes_as' in src_of(x):
                val = ast.Constant(value=None)
            if val is None:
                continue
            n += 1
            if not (isinstance(val, ast.Constant) and val.value is True) and bad is None:
                bad = (f, x)
    # the consumer: presence test or value test?
    orx = prog.func('yabgp.core.protocol.BGP._open_received')
    by_presence = any(isinstance(c, ast.Compare) and "'four_bytes_as'" in src_of(c) and
                      isinstance(c.ops[0], (ast.Eq, ast.In)) for c in ast.walk(orx.node))
    key = 'four-bytes-as-flag'
    if bad and by_presence:
        f, x = bad
        rep.bad(rule, key, file=f.file, line=x.lineno, func=f.qualname,
                found='%s stores the key four_bytes_as with a value other than True, and BGP._open_received enables '
                      '4-octet AS encoding on the presence of the key: a peer without the capability is then sent '
                      '4-octet AS_PATHs' % src_of(x)[:80], expected='key present only when capability 65 was received',
                key=key)
    elif n:
        rep.ok(rule, key, file='yabgp/message/open.py', found='%d store(s), all True' % n)
    else:
        rep.undecided(rule, key, found='no store of four_bytes_as in the OPEN decoder')


def check(prog, rep, tier):
    rep.rule('R05.a', 'OPEN inputs: send_open builds the OPEN from version 4 and from locations whose only '
                      'writers are configuration code, constructors or a set-once initialiser')
    rep.rule('R05.b', 'field sources in Open.construct: the 2-octet AS field is 23456 exactly when asn > 65535, '
                      'capability 65 carries the true AS and is emitted iff asn > 65535 or configured')
    rep.rule('R05.c', 'acceptance: the AS comparison reads the Open object after parse (4-octet value when '
                      'capability 65 is present); version / AS / hold-time tests dominate fsm.open_received '
                      '(C01 R01.c), session hold time = min(configured, proposed) (C03 R03.a)')
    rep.rule('R05.e', 'AS-number width is the session\'s: the AS_PATH / AGGREGATOR decoders pass the asn4 argument on unchanged '
                      '(no internal call with a constant or a different width), and the OPEN decoder stores the key '
                      'four_bytes_as only with the value True (the protocol enables 4-octet mode on its presence)')
    rep.rule('R05.d', '4-octet mode: fourbytesas is False in a new protocol instance, becomes True only under a '
                      'condition over both the peer\'s and the local capability set, and is what Update '
                      'parse/construct receive')
    rep.assumptions += ['byte-level equality of OPENs across sessions for all configurations is not enumerated']
    four_octet_flag_rule(prog, rep, 'R05.e')
    asn4_fidelity(prog, rep, 'R05.e')
    facts = common.env_facts(prog)
    tab = common.get_table(prog, dot_dead=facts['dot_dead'])
    m = tab.model
    bgp = prog.cls(BGP_Q)
    stores = typed_stores(prog)

    # ---------------------------------------------------------------- R05.a
    inputs = []
    for poid, st in m.setup('Connect', 'live'):
        for k, v, s in m.run_method(st, poid, 'send_open'):
            if k == 'raise':
                continue
            for a in s.actions:
                if a.kind == 'enter' and a.meth == 'yabgp.message.open.Open.__init__':
                    inputs.append(('fields', dict(a.kwargs), list(a.args), a.line))
                if a.kind == 'call' and a.meth == 'construct' and 'Open' in a.target:
                    inputs.append(('caps', a.args, None, a.line))
            break
    fields = [i for i in inputs if i[0] == 'fields']
    caps = [i for i in inputs if i[0] == 'caps']
    if not fields or not caps:
        rep.undecided('R05.a', 'send_open', found='Open(...).construct(...) not found on the send_open path')
        return
    kw = fields[0][1]
    sf = bgp.find_method('send_open')

    def provenance(v):
        """-> ('const', value) | ('config', desc) | ('field', cls, attr) | ('other', desc)"""
        if isinstance(v, Const):
            return ('const', v.value)
        d = v.desc()
        if d.startswith(('cfg.', 'CONF.', 'oslo_config.cfg.CONF')):
            return ('config', d)
        for pre, cls in (('fsm.', FSM_Q), ('peering.', PEERING_Q), ('proto.', BGP_Q)):
            if d.startswith(pre) and '.' not in d[len(pre):] and '(' not in d:
                return ('field', cls, d[len(pre):])
        return ('other', d)

    def writers_ok(cls, attr):
        bad = []
        n = 0
        for c, a, f, st, guards in stores:
            if a != attr or (c is not None and c != cls):
                continue
            n += 1
            if f.name == '__init__' or f.module.name.startswith(CONFIG_MODULES):
                continue
            if any(('%s is None' % attr) in g for g in guards):
                continue            # set-once initialiser
            bad.append((f, st))
        return n, bad

    for name, want in (('version', 4), ('asn', None), ('hold_time', None), ('bgp_id', None)):
        v = kw.get(name)
        key = 'open-field:%s' % name
        if v is None:
            rep.bad('R05.a', key, file=PROTO, line=fields[0][3], func=sf.qualname,
                    found='Open() is built without %s' % name, key=key)
            continue
        pv = provenance(v)
        if pv[0] == 'const':
            if want is not None and pv[1] != want:
                rep.bad('R05.a', key, file=PROTO, line=fields[0][3], func=sf.qualname,
                        found='%s = %r' % (name, pv[1]), expected='%r' % want, key=key)
            elif want is None:
                rep.bad('R05.a', key, file=PROTO, line=fields[0][3], func=sf.qualname,
                        found='%s is the constant %r, not the configured value' % (name, pv[1]), key=key)
            else:
                rep.ok('R05.a', key, file=PROTO, line=fields[0][3], found='%s = %r' % (name, pv[1]))
        elif pv[0] == 'config':
            if want is not None:
                rep.bad('R05.a', key, file=PROTO, line=fields[0][3], found='%s = %s' % (name, pv[1]),
                        expected='%r' % want, key=key)
            else:
                rep.ok('R05.a', key, file=PROTO, line=fields[0][3], found='%s <- %s' % (name, pv[1]))
        elif pv[0] == 'field':
            n, bad = writers_ok(pv[1], pv[2])
            if bad:
                f, st = bad[0]
                rep.bad('R05.a', key, file=f.file, line=st.lineno, func=f.qualname,
                        found='%s is read from %s.%s, which %s writes: %s' % (
                            name, pv[1].rsplit('.', 1)[-1], pv[2], f.qualname, src_of(st)),
                        expected='only configuration / constructor writers', key=key)
            else:
                rep.ok('R05.a', key, file=PROTO, line=fields[0][3],
                       found='%s <- %s.%s (%d writer(s), all constructor/config/set-once)' % (
                           name, pv[1].rsplit('.', 1)[-1], pv[2], n))
        else:
            rep.bad('R05.a', key, file=PROTO, line=fields[0][3], func=sf.qualname,
                    found='%s = %s is neither a constant, configuration nor a config-written field' % (name, pv[1]),
                    expected='configured value', key=key)
    # the expected semantic field per name (asn is the *local* AS, not the peer's)
    av = kw.get('asn')
    if av is not None and 'peer' in av.desc():
        rep.bad('R05.a', 'open-field:asn-local', file=PROTO, line=fields[0][3], func=sf.qualname,
                found='asn = %s' % av.desc(), expected='the configured local AS', key='open-field:asn-local')
    # capability set
    cdesc = caps[0][1][0].desc() if caps[0][1] else ''
    if "['capability']['local']" in cdesc and cdesc.startswith('oslo_config.cfg.CONF'):
        rep.ok('R05.a', 'open-capabilities', file=PROTO, line=caps[0][3], found=cdesc)
    else:
        rep.bad('R05.a', 'open-capabilities', file=PROTO, line=caps[0][3], func=sf.qualname,
                found='capabilities come from %s' % cdesc, expected='the configured local capability set',
                key='open-capabilities')
    # writers of the configured local capability dict
    nw = 0
    for f in prog.all_functions():
        for node in ast.walk(f.node):
            txt = None
            if isinstance(node, ast.Call) and isinstance(node.func, ast.Attribute) and \
                    node.func.attr in ('pop', 'update', 'clear', 'setdefault', 'popitem', '__setitem__') and \
                    "['capability']['local']" in src_of(node.func.value):
                txt = src_of(node)
            elif isinstance(node, (ast.Assign, ast.AugAssign, ast.Delete)):
                tg = node.targets if isinstance(node, (ast.Assign, ast.Delete)) else [node.target]
                for t in tg:
                    if isinstance(t, ast.Subscript) and "['capability']['local']" in src_of(t):
                        txt = src_of(node)
            if txt is None:
                continue
            nw += 1
            key = 'caps-writer:%s' % f.qualname
            if f.module.name.startswith(CONFIG_MODULES):
                rep.ok('R05.a', key, file=f.file, line=node.lineno, found=txt)
            else:
                rep.bad('R05.a', key, file=f.file, line=node.lineno, func=f.qualname,
                        found='the configured local capability set is modified at run time: %s' % txt,
                        expected='written by configuration code only', key=key)

    # the peer's capability set of THIS OPEN replaces the stored one on every accepted OPEN (otherwise the
    # per-session flags are derived from an earlier session's OPEN)
    orf = bgp.find_method('_open_received')
    rw = [n for n in ast.walk(orf.node) if isinstance(n, ast.Assign) and
          any(isinstance(t, ast.Subscript) and src_of(t).endswith("['capability']['remote']") for t in n.targets)]
    if len(rw) != 1:
        rep.bad('R05.d', 'remote-caps-stored', file=orf.file, line=orf.node.lineno, func=orf.qualname,
                found="%d assignments to running_config['capability']['remote'] in _open_received" % len(rw),
                expected='exactly one, unconditional', key='remote-caps-stored')
    else:
        encl = [(t, v) for t, v in common.conds_at(orf.node, rw[0])
                if any(rw[0] is x for i in ast.walk(orf.node) if isinstance(i, ast.If) and i.test is t
                       for b in (i.body + i.orelse) for x in ast.walk(b))]
        if encl or 'capa_dict' not in src_of(rw[0].value):
            rep.bad('R05.d', 'remote-caps-stored', file=orf.file, line=rw[0].lineno, func=orf.qualname,
                    found="the peer's capability set is stored only when %s (value %s): otherwise the set of an earlier "
                          'session stays and decides fourbytesas / add-path / families of this one' % (
                              ' and '.join(('' if v else 'not ') + src_of(t) for t, v in encl) or '(always)',
                              src_of(rw[0].value)),
                    expected="running_config['capability']['remote'] = <this OPEN's capa_dict> on every accepted OPEN",
                    key='remote-caps-stored')
        else:
            rep.ok('R05.d', 'remote-caps-stored', file=orf.file, line=rw[0].lineno)

    # ---------------------------------------------------------------- R05.b
    open_construct(prog, rep)

    # ---------------------------------------------------------------- R05.c
    f = bgp.find_method('_open_received')
    body = list(ast.walk(f.node))
    parse_calls = [n for n in body if isinstance(n, ast.Call) and isinstance(n.func, ast.Attribute)
                   and n.func.attr == 'parse']
    cmps = [n for n in body if isinstance(n, ast.Compare) and 'peer_asn' in src_of(n)]
    if not parse_calls or not cmps:
        rep.bad('R05.c', 'as-compare', file=f.file, line=f.node.lineno, func=f.qualname,
                found='no Open parse call / no comparison with the configured peer AS', key='as-compare')
    else:
        c = cmps[0]
        other = [x for x in [c.left] + c.comparators if 'peer_asn' not in src_of(x)]
        recv = parse_calls[0].func.value
        ok = c.lineno > parse_calls[0].lineno and other and isinstance(other[0], ast.Attribute) and \
            other[0].attr == 'asn' and src_of(other[0].value) == src_of(recv)
        if ok:
            rep.ok('R05.c', 'as-compare', file=f.file, line=c.lineno, found=src_of(c))
        else:
            rep.bad('R05.c', 'as-compare', file=f.file, line=c.lineno, func=f.qualname, found=src_of(c),
                    expected='<open object>.asn compared after <open object>.parse(msg)', key='as-compare')
    # Open.parse: capability 65 replaces self.asn with the unpacked 4-octet value
    op = prog.func('yabgp.message.open.Open.parse')
    good = False
    for node in [n for m_ in prog.cls('yabgp.message.open.Open').methods.values() for n in ast.walk(m_.node)]:
        if isinstance(node, ast.If) and 'FOUR_BYTES_ASN' in src_of(node.test):
            txt = ' '.join(src_of(s) for s in node.body)
            direct = [s for s in node.body if isinstance(s, ast.Assign) and src_of(s.targets[0]) == 'self.asn']
            if direct and "unpack('!I'" in txt:
                good = True
    if good:
        rep.ok('R05.c', 'asn4-replaces-asn', file=op.file, line=op.node.lineno)
    else:
        rep.bad('R05.c', 'asn4-replaces-asn', file=op.file, line=op.node.lineno, func=op.qualname,
                found='capability 65 does not unconditionally replace self.asn with the 4-octet value', key='asn4-replaces-asn')
    # accepted OPEN: negotiated hold = min(configured, proposed) with configured from configuration
    n_acc = 0
    for r in tab.get('WIRE', 'OpenSent'):
        if r.wire['cls'] == 'OPEN' and r.final == 'OpenConfirm':
            n_acc += 1
            h = r.field('fsm', 'hold_time')
            ok = isinstance(h, Sym) and h.origin and h.origin[0] == 'min' and \
                any(a.desc().startswith(('CONF.', 'cfg.', 'oslo_config')) for a in h.origin[1]) and \
                any(r.st.syminfo.get(a.desc(), (None,))[0] == '!BHHIB' for a in h.origin[1])
            if not ok:
                rep.bad('R05.c', 'session-hold-time', file=PROTO, line=common.row_line(r),
                        func='BGP.negotiate_hold_time', found='session hold time = %s' % cval(h),
                        expected='min(configured hold time, peer proposal)', key='session-hold-time',
                        path=r.describe())
                break
    else:
        if n_acc:
            rep.ok('R05.c', 'session-hold-time', file=PROTO, found='%d accepting paths' % n_acc)
        else:
            rep.undecided('R05.c', 'session-hold-time', found='no accepting path')

    # ---------------------------------------------------------------- R05.d
    fb = [s for s in stores if s[1] == 'fourbytesas']
    if not fb:
        rep.undecided('R05.d', 'fourbytesas', found='attribute vanished')
    for cls, attr, f, st, guards in fb:
        key = 'fourbytesas:%s' % f.qualname
        val = st.value if isinstance(st, ast.Assign) else None
        if f.name == '__init__':
            if isinstance(val, ast.Constant) and val.value is False:
                rep.ok('R05.d', key, file=f.file, line=st.lineno, found=src_of(st))
            else:
                rep.bad('R05.d', key, file=f.file, line=st.lineno, func=f.qualname, found=src_of(st),
                        expected='False in a new protocol instance', key=key)
            continue
        g = ' ; '.join(guards)
        if "'remote'" in g and "'local'" in g and 'four_bytes_as' in g:
            rep.ok('R05.d', key, file=f.file, line=st.lineno, found=g)
        else:
            rep.bad('R05.d', key, file=f.file, line=st.lineno, func=f.qualname,
                    found='%s under [%s]: 4-octet mode does not depend on the local advertisement' % (src_of(st), g),
                    expected='condition over both the peer\'s and the local four_bytes_as capability', key=key)
    for meth, callee in (('_update_received', 'parse'), ('send_update', 'construct'),
                         ('construct_update_to_bin', 'construct')):
        f = bgp.find_method(meth)
        calls = [n for n in ast.walk(f.node) if isinstance(n, ast.Call) and isinstance(n.func, ast.Attribute)
                 and n.func.attr == callee and 'Update' in src_of(n.func.value)]
        key = 'asn4-arg:%s' % meth
        if calls and any('self.fourbytesas' == src_of(a) for c in calls for a in list(c.args) +
                         [k.value for k in c.keywords]):
            rep.ok('R05.d', key, file=f.file, line=calls[0].lineno)
        else:
            rep.bad('R05.d', key, file=f.file, line=f.node.lineno, func=f.qualname,
                    found='Update().%s is not given self.fourbytesas' % callee, key=key)
    pf = prog.cls('yabgp.core.factory.BGPFactory')
    c, e = pf.find_attr('protocol')
    r = common.resolve_class(prog, e, pf.methods['buildProtocol']) if e is not None else None
    if r is bgp:
        rep.ok('R05.d', 'protocol-per-connection', file=pf.module.relpath, line=pf.node.lineno,
               found='BGPFactory.protocol = BGP: Factory.buildProtocol creates one instance per connection')
    else:
        rep.bad('R05.d', 'protocol-per-connection', file=pf.module.relpath, line=pf.node.lineno,
                found='factory protocol class is not BGP', key='protocol-per-connection')


def open_construct(prog, rep):
    ip = Interp(prog, max_paths=20000)
    ip.while_unroll = 1
    st = State()
    st.frames.append({})
    ocls = prog.cls('yabgp.message.open.Open')
    asn = prims.mk_sym(st, 'asn', 0, 2 ** 32 - 1)
    kw = {'version': Const(4), 'asn': asn, 'hold_time': prims.mk_sym(st, 'hold', 0, 65535),
          'bgp_id': prims.mk_sym(st, 'bgp_id', 0, 2 ** 32 - 1)}
    res = ip.instantiate(ocls, [], kw, st)
    if len(res) != 1:
        rep.undecided('R05.b', 'Open.construct', found='Open.__init__ forks')
        return
    o, st = res[0][1], res[0][2]
    f = ocls.find_method('construct')
    outs = ip.call_func(FuncV(f, o), [Opaque('caps')], {}, st)
    n = 0
    bad = None
    for k, v, s in outs:
        if k != 'val' or not isinstance(v, BytesV):
            continue
        n += 1
        lo, hi, _ = s.interval('asn')
        big = lo >= 65536
        small = hi <= 65535
        parts = flat_parts(v)
        hdr = [p for p in parts if p[0] == 'pack' and p[1].lstrip('!') == 'BHHIB']
        cap65 = [p for p in parts if p[0] == 'pack' and p[1].lstrip('!') == 'BBBBI'
                 and len(p[2]) >= 5 and isinstance(p[2][2], Const) and p[2][2].value == 65]
        conf = s.atoms.get("truth(caps.get('four_bytes_as'))")
        if not hdr:
            bad = bad or ('no OPEN fixed part on a path', s)
            continue
        a = hdr[0][2][1]
        if big:
            if not (isinstance(a, Const) and a.value == 23456):
                bad = bad or ('asn > 65535 but the 2-octet AS field is %s' % a.desc(), s)
            if not cap65 or cap65[0][2][4].desc() != 'asn':
                bad = bad or ('asn > 65535 but capability 65 does not carry the true AS', s)
        elif small:
            if a.desc() != 'asn':
                bad = bad or ('asn <= 65535 but the 2-octet AS field is %s' % a.desc(), s)
            if conf is True and not cap65:
                bad = bad or ('four_bytes_as configured but capability 65 not emitted', s)
            if conf is False and cap65:
                bad = bad or ('capability 65 emitted although not configured and asn <= 65535', s)
            if cap65 and cap65[0][2][4].desc() != 'asn':
                bad = bad or ('capability 65 carries %s' % cap65[0][2][4].desc(), s)
        else:
            bad = bad or ('path does not distinguish asn > 65535', s)
        v0 = hdr[0][2][0]
        if not (isinstance(v0, Const) and v0.value == 4):
            bad = bad or ('version field is %s' % v0.desc(), s)
        if hdr[0][2][2].desc() != 'hold' or hdr[0][2][3].desc() != 'bgp_id':
            bad = bad or ('hold time / identifier fields are %s, %s' % (hdr[0][2][2].desc(), hdr[0][2][3].desc()), s)
    if n == 0:
        rep.undecided('R05.b', 'Open.construct', found='no path returns bytes')
    elif bad:
        rep.bad('R05.b', 'Open.construct', file=f.file, line=f.node.lineno, func=f.qualname, found=bad[0],
                expected='AS_TRANS iff asn > 65535; capability 65 carries the true AS', key='Open.construct')
    else:
        rep.ok('R05.b', 'Open.construct', file=f.file, line=f.node.lineno, found='%d paths' % n)


def flat_parts(v):
    out = []
    for p in v.parts:
        if p[0] == 'opq' and isinstance(p[1], BytesV):
            out.extend(flat_parts(p[1]))
        else:
            out.append(p)
    return out
