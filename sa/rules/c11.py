"""C11 - every decoder terminates; UPDATE decoding never raises (structural part)."""
import ast

from ..front import AnalysisError, NotConst, src_of, norm_stmt
from ..values import Const, Sym, Opaque, Obj, ClassV, FuncV, State, INF
from ..interp import Interp
from .. import prims
from ..prims import SliceV
from . import common
from .c10 import parents, catch_all_try
from .c20 import ancestors


def offset_lo(v, st):
    if v is None or (isinstance(v, Const) and v.value is None):
        return 0
    iv = prims.ival(v, st)
    if iv is None:
        return None
    return iv[0]


def progress(prev, cur, st):
    """'yes' (strictly shorter suffix), 'no' (unchanged / may be unchanged), 'unknown'."""
    if prev is None or cur is None:
        return 'unknown', 'cursor not evaluable'
    if prims_same(prev, cur):
        return 'no', 'cursor unchanged'
    total = 0
    v = cur
    hops = 0
    while isinstance(v, SliceV) and hops < 20:
        lo = offset_lo(v.lo, st)
        if lo is None:
            return 'unknown', 'slice offset %s not numeric' % v.lo.desc()
        if lo < 0:
            return 'unknown', 'negative slice offset'
        total += lo
        v = v.base
        hops += 1
        if prims_same(prev, v):
            if total >= 1:
                return 'yes', 'advances by >= %s' % total
            return 'no', 'may advance by 0 octets (offset lower bound %s)' % total
    # growth: the new value is the old one with something appended (x += b'\\x00')
    from ..values import BytesV
    if isinstance(cur, BytesV) and cur.parts and cur.parts[0][0] == 'opq' and prims_same(prev, cur.parts[0][1]) \
            and len(cur.parts) > 1:
        return 'grows', 'the loop variable grows (%s) instead of shrinking' % cur.desc()[:60]
    return 'unknown', 'new cursor %s is not a suffix of the old one %s' % (cur.desc()[:80], prev.desc()[:80])


def prims_same(a, b):
    if type(a) is not type(b) and not (isinstance(a, Opaque) and isinstance(b, Opaque)):
        return False
    if isinstance(a, Obj):
        return a.oid == b.oid
    return a.desc() == b.desc()


def make_args(prog, ip, f, st):
    args = []
    params = list(f.params)
    selfv = None
    if f.kind in ('method', 'property') and params:
        o = st.new_obj('inst', f.cls, hint=f.cls.name)
        # unknown instance: attributes read become opaque
        selfv = o
        params = params[1:]
    elif f.kind == 'classmethod' and params:
        selfv = ClassV(f.cls)
        params = params[1:]
    defaults = f.node.args.defaults
    nd = len(defaults)
    allp = [a.arg for a in f.node.args.args]
    # parameters that are used as objects (attribute access) are abstract heap objects, so that
    # writes to their fields are seen again when the field is read (capability.capa_value = ...)
    objparams = set()
    for n in ast.walk(f.node):
        if isinstance(n, ast.Attribute) and isinstance(n.value, ast.Name) and n.value.id in params:
            objparams.add(n.value.id)
    for p in params:
        i = allp.index(p)
        di = i - (len(allp) - nd)
        if di >= 0 and isinstance(defaults[di], ast.Constant) and isinstance(defaults[di].value, bool):
            args.append(Opaque(p, 'bool'))
        elif p in objparams:
            o = st.new_obj('inst', 'Unknown', hint=p)
            args.append(o)
        else:
            args.append(Opaque(p, 'bytes'))
    return selfv, args


def check(prog, rep, tier):
    rep.rule('R11.a', 'loop progress: on every path from the head of a decoder while-loop back to the head a '
                      'cursor of the loop test is replaced by a strictly shorter suffix of itself '
                      '(advance with interval lower bound >= 1)')
    rep.rule('R11.b', 'for-loops iterate over collections that the loop body does not grow')
    rep.rule('R11.c', 'recursion through TLV registries passes a strict sub-slice of the parameter')
    rep.rule('R11.d', 'exception funnel: in Update.parse everything after the two length-field reads is inside '
                      'try/except handlers that record a sub-error and do not raise; parse_attributes re-raises '
                      'only UpdateMessageError')
    rep.assumptions += ['a quantitative work bound is not decided, only termination of each loop iteration '
                        'sequence on a finite input', 'library calls terminate']
    loops = []
    for f in prog.all_functions():
        if not f.module.name.startswith('yabgp.message') and f.qualname not in (
                'yabgp.core.protocol.BGP._keepalive_received',):
            continue
        ws = [n for n in ast.walk(f.node) if isinstance(n, ast.While)]
        if ws:
            loops.append((f, ws))
    nloops = sum(len(ws) for f, ws in loops)
    rep.floor('R11.a', 'while loops in decoders', nloops, 42)

    for f, ws in loops:
        if f.qualname == 'yabgp.core.protocol.BGP._keepalive_received':
            w = ws[0]
            txt = src_of(w.test)
            body = ' '.join(src_of(s) for s in w.body)
            key = 'loop:%s#0' % f.qualname
            if '.empty()' in txt and '.get()' in body:
                rep.ok('R11.a', key, file=f.file, line=w.lineno, found='queue drain: every iteration removes one element')
            else:
                rep.bad('R11.a', key, file=f.file, line=w.lineno, func=f.qualname,
                        found='loop %s does not dequeue' % txt, key=key)
            continue
        err = None
        for depth in (8, 3, 2):
            obs = {id(w): [] for w in ws}
            err = analyse(prog, f, ws, obs, depth)
            if err is None:
                break
        analysed_depth = depth

        for i, w in enumerate(sorted(ws, key=lambda n: n.lineno)):
            key = 'loop:%s#%d' % (f.qualname, i)
            if err:
                rep.undecided('R11.a', key, file=f.file, line=w.lineno, found=err)
                continue
            o = obs[id(w)]
            if not o:
                back = any(True for _ in [0])
                rep.ok('R11.a', key, file=f.file, line=w.lineno, nontrivial=False,
                       found='no path returns to the loop head (or loop not reached with symbolic input)')
                continue
            bad = None
            unk = None
            # a loop that grows its test variable terminates only under an upper-bound test (len(x) < K);
            # `!=` / `==`-style tests are overshot by an input that is already longer
            bounded_growth = isinstance(w.test, ast.Compare) and len(w.test.ops) == 1 and \
                isinstance(w.test.ops[0], (ast.Lt, ast.LtE)) and 'len(' in src_of(w.test.left)
            for res, path in o:
                if any(r[1] == 'yes' for r in res):
                    continue
                if any(r[1] == 'grows' for r in res):
                    if bounded_growth:
                        continue
                    bad = ([(r[0], 'no', r[2] + '; `while %s` does not bound the growth from above, an input that is '
                             'already past the target never satisfies it' % src_of(w.test)) for r in res
                            if r[1] == 'grows'], path)
                    break
                if any(r[1] == 'no' for r in res):
                    bad = (res, path)
                    break
                unk = (res, path)
            if bad:
                res, path = bad
                rep.bad('R11.a', key, file=f.file, line=w.lineno, func=f.qualname,
                        found='a path returns to `while %s` without progress: %s' % (
                            src_of(w.test), '; '.join('%s: %s' % (r[0], r[2]) for r in res)),
                        expected='cursor = cursor[k:], k >= 1 on every path',
                        path=[('%s' if b else 'not (%s)') % t for t, b in path], key=key)
            elif unk:
                res, path = unk
                rep.undecided('R11.a', key, file=f.file, line=w.lineno,
                              found='progress not provable on a path: %s' % '; '.join(
                                  '%s: %s' % (r[0], r[2]) for r in res))
            else:
                rep.ok('R11.a', key, file=f.file, line=w.lineno, found='%d back-edge path(s) all advance' % len(o))

    # ---------------------------------------------------------------- R11.b
    nfor = 0
    for f in prog.all_functions():
        if not f.module.name.startswith('yabgp.message'):
            continue
        for n in ast.walk(f.node):
            if isinstance(n, ast.For) and isinstance(n.iter, ast.Name):
                nfor += 1
                grown = False
                for c in ast.walk(ast.Module(body=n.body, type_ignores=[])):
                    if isinstance(c, ast.Call) and isinstance(c.func, ast.Attribute) and \
                            c.func.attr in ('append', 'extend', 'insert') and \
                            isinstance(c.func.value, ast.Name) and c.func.value.id == n.iter.id:
                        grown = True
                key = 'for:%s:%s' % (f.qualname, n.iter.id)
                if grown:
                    rep.bad('R11.b', key, file=f.file, line=n.lineno, func=f.qualname,
                            found='the loop body grows the list it iterates over', key=key)
    rep.ok('R11.b', 'for-loops', found='%d for-loops over a named collection, none grows it' % nfor) \
        if not any(i.rule == 'R11.b' for i in rep.instances) else None

    # ---------------------------------------------------------------- R11.c
    recursion(prog, rep)
    exception_carries_fields(prog, rep, 'R11.d')

    # ---------------------------------------------------------------- R11.d
    up = prog.func('yabgp.message.update.Update.parse')
    update_parse_funnel(prog, rep, 'R11.d')
    # the generic handlers themselves cannot raise: they use the exception object only through
    # str()/repr()/logging (attributes such as .data exist on UpdateMessageError only)
    for fn in (up, prog.func('yabgp.message.update.Update.parse_attributes')):
        for t in [n for n in ast.walk(fn.node) if isinstance(n, ast.Try)]:
            for h in t.handlers:
                generic = h.type is None or src_of(h.type).split('.')[-1] in ('Exception', 'BaseException')
                if not generic or not h.name:
                    continue
                for n in ast.walk(ast.Module(body=h.body, type_ignores=[])):
                    if isinstance(n, ast.Attribute) and isinstance(n.value, ast.Name) and n.value.id == h.name:
                        key = 'handler-raises:%s:%s' % (fn.qualname, src_of(n))
                        rep.bad('R11.d', key, file=fn.file, line=n.lineno, func=fn.qualname,
                                found='the catch-all handler reads %s, which only UpdateMessageError has: any other '
                                      'exception (IndexError, struct.error) makes the handler itself raise '
                                      'AttributeError out of the decoder' % src_of(n),
                                expected='handlers use the exception only via str()/logging', key=key)
    # the handlers of Update.parse run outside any try: every call in them must be total
    TOTAL = {'str', 'repr', 'dict', 'list', 'tuple', 'len', 'isinstance', 'bool', 'traceback.format_exc', 'type'}
    nh = 0
    for t in [n for n in up.node.body if isinstance(n, ast.Try)]:
        for h in t.handlers:
            nh += 1
            guarded = set()
            for n in ast.walk(ast.Module(body=h.body, type_ignores=[])):
                if isinstance(n, ast.Try) and catch_all_try(n):
                    guarded |= {id(x) for b in n.body for x in ast.walk(b)}
            for n in ast.walk(ast.Module(body=h.body, type_ignores=[])):
                if not isinstance(n, ast.Call) or id(n) in guarded:
                    continue
                fn_txt = src_of(n.func)
                if fn_txt in TOTAL or fn_txt.startswith('LOG.'):
                    continue
                if fn_txt == 'getattr' and len(n.args) == 3:
                    continue
                key = 'handler-call:%s:%s' % (src_of(h.type) if h.type is not None else 'bare', fn_txt)
                rep.bad('R11.d', key, file=up.file, line=n.lineno, func=up.qualname,
                        found='the handler for %s calls %s outside any try: if it raises, the exception leaves '
                              'Update.parse instead of a result object' % (
                                  src_of(h.type) if h.type is not None else 'everything', src_of(n)),
                        expected='handlers only log and copy fields of the exception', key=key)
    rep.floor('R11.d', 'Update.parse handlers', nh, 2)
    # a result object is returned on every path
    rets = [n for n in ast.walk(up.node) if isinstance(n, ast.Return)]
    last = up.node.body[-1]
    if isinstance(last, ast.Return) and last.value is not None and len(rets) == 1:
        rep.ok('R11.d', 'Update.parse-returns', file=up.file, line=last.lineno)
    else:
        rep.bad('R11.d', 'Update.parse-returns', file=up.file, line=up.node.lineno, func=up.qualname,
                found='Update.parse does not end in a single unconditional return of the result',
                key='Update.parse-returns')
    pa = prog.func('yabgp.message.update.Update.parse_attributes')
    bad = None
    halfinit = None
    for t in [n for n in ast.walk(pa.node) if isinstance(n, ast.Try)]:
        for h in t.handlers:
            for n in ast.walk(ast.Module(body=h.body, type_ignores=[])):
                if isinstance(n, ast.Raise):
                    # a bare `raise` (or `raise e`) in a handler that catches UpdateMessageError only re-raises one
                    only_ume = h.type is not None and _handler_names(h) == {'UpdateMessageError'}
                    same = n.exc is None or (isinstance(n.exc, ast.Name) and n.exc.id == h.name)
                    if same and only_ume:
                        # the caught object itself travels on to Update.parse, which reads e.sub_error / e.data:
                        # fine as long as the constructor cannot leave those unset
                        culprit = exception_init_gap(prog)
                        if culprit is not None:
                            halfinit = (n, culprit)
                        continue
                    if n.exc is None or 'UpdateMessageError' not in src_of(n.exc):
                        bad = n
    whole = [s for s in pa.node.body if isinstance(s, ast.Try)]
    if halfinit is not None:
        n, (cf, cst) = halfinit
        rep.bad('R11.d', 'parse_attributes', file=pa.file, line=n.lineno, func=pa.qualname,
                found='the handler re-raises the caught UpdateMessageError object, and %s can leave it without '
                      'sub_error / data: `%s` (line %d) may raise before they are assigned and the constructor swallows '
                      'that - Update.parse then fails with AttributeError on e.sub_error' % (
                          cf.qualname, src_of(cst)[:80], cst.lineno),
                expected='a fully initialised exception reaches Update.parse', key='parse_attributes')
    elif bad is not None:
        rep.bad('R11.d', 'parse_attributes', file=pa.file, line=bad.lineno, func=pa.qualname,
                found='handler raises %s' % src_of(bad), expected='only UpdateMessageError', key='parse_attributes')
    elif not whole or not any(catch_all_or_reraise_ume(t) for t in whole):
        rep.bad('R11.d', 'parse_attributes', file=pa.file, line=pa.node.lineno, func=pa.qualname,
                found='the attribute loop is not wrapped in try/except Exception', key='parse_attributes')
    else:
        rep.ok('R11.d', 'parse_attributes', file=pa.file, line=pa.node.lineno)


def analyse(prog, f, ws, obs, depth):
    ip = Interp(prog, max_paths=40000)
    ip.while_unroll = 1
    ip.unpack_may_raise = True
    ip.merge_call_prefixes = ('yabgp.',)
    ip.max_depth = depth

    def hook(ip_, stmt, prev, cur, st):
        if id(stmt) not in obs:
            return
        res = []
        for name in (cur or {}):
            res.append((name,) + progress((prev or {}).get(name), cur.get(name), st))
        obs[id(stmt)].append((res, [(t, b) for t, b, l, fq in st.path][-8:]))
    ip.loop_hook = hook
    st = State()
    st.frames.append({})
    selfv, args = make_args(prog, ip, f, st)
    try:
        ip.call_func(FuncV(f, selfv), args, {}, st)
        return None
    except AnalysisError as e:
        return str(e)


def update_parse_funnel(prog, rep, rule):
    """Everything Update.parse does after the two length-field reads is inside try/except Exception: no call and no
    raise at the top level of the function (an exception there leaves the decoder instead of a result object)."""
    up = prog.func('yabgp.message.update.Update.parse')
    outside = []
    for st in up.node.body:
        if isinstance(st, ast.Try):
            if not catch_all_try(st):
                outside.append((st, 'try without a non-raising catch-all handler'))
            continue
        if isinstance(st, (ast.Return, ast.Expr)) and not any(isinstance(n, ast.Call) for n in ast.walk(st)):
            continue
        calls = [n for n in ast.walk(st) if isinstance(n, ast.Call)]
        risky = [c for c in calls if not (src_of(c.func) in ('struct.unpack',))]
        if isinstance(st, ast.Assign) and not risky:
            continue        # header reads / slices (total under the stated precondition)
        if isinstance(st, ast.Assign) and isinstance(st.value, ast.Dict):
            continue
        if risky:
            outside.append((st, 'call %s outside the funnel' % src_of(risky[0].func)))
        elif any(isinstance(n, ast.Raise) for n in ast.walk(st)):
            outside.append((st, 'raise outside the funnel'))
    if outside:
        st, why = outside[0]
        rep.bad(rule, 'Update.parse', file=up.file, line=st.lineno, func=up.qualname, found=why,
                expected='decoder calls inside try/except Exception', key='Update.parse')
    else:
        rep.ok(rule, 'Update.parse', file=up.file, line=up.node.lineno)


def _cannot_raise(st):
    """Statements of an exception constructor that cannot raise: plain copies and %-formatting with %(name)s."""
    if isinstance(st, ast.Assign):
        v = st.value
        if isinstance(v, (ast.Name, ast.Constant, ast.Attribute)):
            return True
        if isinstance(v, ast.BinOp) and isinstance(v.op, ast.Mod) and isinstance(v.left, (ast.Attribute, ast.Constant)) and \
                all(isinstance(x, (ast.Dict, ast.Tuple, ast.Name, ast.Constant, ast.Load)) for x in ast.walk(v.right)):
            return True         # class-level template % plain names: %(name)s of anything formats
    if isinstance(st, ast.Expr) and isinstance(st.value, ast.Constant):
        return True
    return False


def exception_init_gap(prog):
    """(FuncInfo, statement) when a constructor of the NotificationSent family assigns self.sub_error / self.data
    inside a try whose handler swallows, after a statement that may raise; None when every constructed exception
    carries both attributes."""
    base = prog.cls('yabgp.common.exception.NotificationSent')
    for m in prog.modules.values():
        for c in m.classes.values():
            if c is not base and not c.is_subclass_of(base.qualname):
                continue
            f = c.methods.get('__init__')
            if f is None:
                continue
            for t in [n for n in ast.walk(f.node) if isinstance(n, ast.Try)]:
                swallows = any(not (h.body and isinstance(h.body[-1], ast.Raise) and len(h.body) == 1) for h in t.handlers)
                if not swallows:
                    continue
                pending = None
                for st in t.body:
                    sets = isinstance(st, ast.Assign) and any(
                        isinstance(x, ast.Attribute) and x.attr in ('sub_error', 'data') and src_of(x.value) == 'self'
                        for x in st.targets)
                    if sets and pending is not None:
                        return (f, pending)
                    if not sets and not _cannot_raise(st) and pending is None:
                        pending = st
    return None


def exception_carries_fields(prog, rep, rule):
    """Every exception of the NotificationSent family carries sub_error and data: its consumers (parse_buffer,
    Update.parse) read them without a guard."""
    gap = exception_init_gap(prog)
    base = prog.cls('yabgp.common.exception.NotificationSent')
    key = 'exception-carries-sub-error'
    if gap is not None:
        cf, cst = gap
        rep.bad(rule, key, file=cf.file, line=cst.lineno, func=cf.qualname,
                found='`%s` may raise before self.sub_error / self.data are assigned and the constructor swallows that: '
                      'the exception object then lacks the attributes its handlers read (AttributeError inside the '
                      'handler, swallowed by the catch-all of parse_buffer or escaping Update.parse)' % src_of(cst)[:90],
                expected='nothing that can raise before the two assignments', key=key)
    else:
        rep.ok(rule, key, file=base.module.relpath, line=base.node.lineno)


def _handler_names(h):
    t = h.type
    elts = t.elts if isinstance(t, ast.Tuple) else [t]
    return set(src_of(e).split('.')[-1] for e in elts)


def catch_all_or_reraise_ume(t):
    for h in t.handlers:
        if h.type is None or src_of(h.type).split('.')[-1] in ('Exception', 'BaseException'):
            return True
    return False


def recursion(prog, rep):
    """Call-graph cycles through `.unpack(`/`.parse(` by name; each call on the cycle must pass a
    slice with start offset >= 1 or a bounded window of the parameter."""
    # edges: function -> set of callee method names with the argument expressions
    funcs = [f for f in prog.all_functions() if f.module.name.startswith('yabgp.message')]
    by_name = {}
    for f in funcs:
        by_name.setdefault(f.name, []).append(f)
    edges = {}
    for f in funcs:
        for n in ast.walk(f.node):
            if isinstance(n, ast.Call) and isinstance(n.func, ast.Attribute) and n.func.attr in ('unpack', 'parse') \
                    and src_of(n.func.value) not in ('struct',):
                recv = n.func.value
                r = prog.resolve_expr(recv, f.module, f.cls)
                if r is not None and hasattr(r, 'find_method'):
                    tg = [r.find_method(n.func.attr)] if r.find_method(n.func.attr) else []
                else:
                    # registry dispatch: any class registered / any same-named method in the TLV families
                    tg = [g for g in by_name.get(n.func.attr, []) if 'linkstate' in g.module.name or
                          'sr' in g.module.name.split('.')]
                    if 'registered_tlvs' not in src_of(recv):
                        tg = []
                for g in tg:
                    edges.setdefault(f.qualname, []).append((g.qualname, n, f))
    # find functions on cycles
    import sys
    sys.setrecursionlimit(10000)
    on_cycle = set()

    def reach(a, b, seen):
        if a in seen:
            return False
        seen.add(a)
        for (c, n, f) in edges.get(a, []):
            if c == b or reach(c, b, seen):
                return True
        return False
    ncyc = 0
    for a in list(edges):
        for (c, n, f) in edges[a]:
            if c == a or reach(c, a, set()):
                ncyc += 1
                args = list(n.args) + [k.value for k in n.keywords]
                ok = False
                why = 'no argument is a sub-slice'
                for arg in args:
                    if isinstance(arg, ast.Subscript) and isinstance(arg.slice, ast.Slice):
                        lo = arg.slice.lower
                        v = prog.try_fold(lo, f.module, f.cls) if lo is not None else None
                        if isinstance(v, int) and v >= 1:
                            ok = True
                        elif lo is not None and v is None:
                            ok = True       # symbolic offset computed after a header: checked by R11.a of the loop
                    elif isinstance(arg, ast.Name):
                        # a local that is itself a bounded window (value = data[4:4+length])
                        for st in ast.walk(f.node):
                            if isinstance(st, ast.Assign) and any(isinstance(t, ast.Name) and t.id == arg.id
                                                                  for t in st.targets) and \
                                    isinstance(st.value, ast.Subscript) and isinstance(st.value.slice, ast.Slice):
                                lo = st.value.slice.lower
                                v = prog.try_fold(lo, f.module, f.cls) if lo is not None else None
                                if isinstance(v, int) and v >= 1:
                                    ok = True
                # inside a loop the siblings must get disjoint windows: a suffix without an upper bound makes
                # every sibling decode all its followers again (work doubles per sibling)
                par = parents(f.node)
                in_loop = any(isinstance(p, (ast.While, ast.For)) for p in ancestors(par, n, f.node))
                if ok and in_loop:
                    def bounded(e, depth=0):
                        if isinstance(e, ast.Subscript) and isinstance(e.slice, ast.Slice):
                            return e.slice.upper is not None
                        if isinstance(e, ast.Name) and depth < 3:
                            defs = [st.value for st in ast.walk(f.node) if isinstance(st, ast.Assign) and
                                    any(isinstance(t, ast.Name) and t.id == e.id for t in st.targets)]
                            slices = [d for d in defs if isinstance(d, ast.Subscript) and isinstance(d.slice, ast.Slice)]
                            return bool(slices) and all(bounded(d, depth + 1) for d in slices)
                        return False
                    sl = [x for x in args if isinstance(x, (ast.Subscript, ast.Name))]
                    if sl and not any(bounded(x) for x in sl):
                        ok = False
                        why = 'called in a loop with an unbounded suffix of the buffer: sibling windows overlap, ' \
                              'the work doubles with every sibling'
                key = 'recursion:%s->%s' % (a, c)
                if any(i.key == key for i in rep.instances):
                    continue
                if ok:
                    rep.ok('R11.c', key, file=f.file, line=n.lineno, found=src_of(n)[:120])
                else:
                    rep.bad('R11.c', key, file=f.file, line=n.lineno, func=a, found='%s: %s' % (src_of(n)[:120], why),
                            expected='recursive decode of a strict sub-slice', key=key)
    if ncyc == 0:
        rep.ok('R11.c', 'no-recursion', found='no call cycle among the decoders', nontrivial=False)
