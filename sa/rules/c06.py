"""C06 - UPDATE round trip, IPv4 unicast + standard attributes (necessary structural conditions)."""
import ast
import math

from ..front import AnalysisError, NotConst, src_of
from ..values import Const, Sym, Opaque, Obj, BytesV, TupleV, ClassV, FuncV, State
from ..prims import SliceV, parse_fmt
from .. import prims
from .. import codec
from .. import bytelen as BL
from . import common
from .c08 import run_construct, bytes_like, width_rule
from .c09 import dispatch_table

UPD = 'yabgp.message.update.Update'
A = 'yabgp.message.attribute.'

# value layout after the 3/4-octet attribute header: list of field codes; 'ip' = packed address;
# ('rep', [...]) = repeated group (0/1 repetition is analysed)
LAYOUT = {
    'origin.Origin': (dict(), ['B']),
    'nexthop.NextHop': (dict(), ['ip']),
    'med.MED': (dict(), ['I']),
    'localpref.LocalPreference': (dict(), ['I']),
    'atomicaggregate.AtomicAggregate': (dict(), []),
    'originatorid.OriginatorID': (dict(), ['ip']),
}
PARSE_FMT = {
    'med.MED': ['!I'], 'localpref.LocalPreference': ['!I'],
}


def check(prog, rep, tier):
    rep.rule('R06.a', 'no input dropped: on every path of Update.construct every part that was built from the '
                      'request (withdrawn routes, attributes, NLRI) is in the returned message, which is bytes')
    rep.rule('R06.b', 'prefix width: the IPv4 prefix encoder emits and the decoder consumes ceil(m / 8) address '
                      'octets for every m in 0..32 (finite partition)')
    rep.rule('R06.c', 'unsigned wire: no signed struct code in any format string of yabgp/message/**')
    rep.rule('R06.d', 'sibling format agreement: the value fields written by each standard attribute encoder '
                      'have the widths of the RFC layout its decoder reads')
    rep.rule('R06.e', 'dispatch symmetry: every type code construct_attributes encodes is decoded by '
                      'parse_attributes with the same class')
    rep.rule('R06.f', 'encoders keep no state: no construct function writes class-level or module-level state '
                      '(an earlier message must not change how a later one is encoded)')
    rep.rule('R06.g', 'order and multiplicity kept: no standard attribute codec sorts, reverses or de-duplicates a '
                      'collection of input elements (AS_PATH segments and members, communities, cluster list)')
    rep.rule('R06.h', 'well-known community names: every name the decoder renders is accepted back by the encoder '
                      'with the same value')
    rep.rule('R06.i', 'extended-length threshold: AS_PATH takes the 1-octet length form for at most 255 octets and the '
                      'extended form from 256 on, so every length can be encoded')
    rep.rule('R06.j', 'field boundaries: no comparison in the standard attribute codecs splits a range between '
                      '2**k - 2 and 2**k - 1')
    rep.rule('R06.k', 'decoders look a received value up in a constant table only under a test that it is in the '
                      'table (no KeyError for legal values outside it)')
    rep.rule('R06.l', 'trailing-bit mask of the prefix decoders: for remainder r = 1..7 the mask keeps exactly the top r '
                      'bits of the last received octet (a wrong mask changes the prefix that comes back)')
    rep.rule('R06.m', 'decoder loops run while a whole element remains: a test len(cursor) > K must not stop while the '
                      'smallest element (a zero-length attribute is 3 octets) still fits')
    rep.assumptions += ['equality of decoded and given values for concrete inputs is not decided (round-trip '
                        'equality over the value space is not a static property)']

    # ---------------------------------------------------------------- R06.a
    f = prog.func(UPD + '.construct')
    outs = run_construct(prog, f, depth=2, budget=20000,
                         opaque=(UPD + '.construct_attributes', UPD + '.construct_prefix_v4'))
    npaths = 0
    bad = None
    for k, v, s in outs:
        if k != 'val':
            continue
        npaths += 1
        if not bytes_like(v):
            bad = bad or ('a path returns %s instead of bytes' % v.desc(), s)
            continue
        built = []
        for a in s.actions:
            if a.kind == 'call' and a.meth.startswith('construct') and 'header' not in a.meth:
                built.append(a)
        present = ' '.join(BL._pdesc(p) if hasattr(BL, '_pdesc') else str(p) for p in BL.flatten(v))
        txt = v.desc()
        for a in built:
            if a.meth == 'construct_prefix_v4' and a.args:
                d0 = a.args[0].desc() if hasattr(a.args[0], 'desc') else str(a.args[0])
                if not (d0.startswith(f.params[1] + '[') or d0.startswith(f.params[1] + '.get(')):
                    bad = bad or ('construct_prefix_v4 at line %s is given %s, not the prefix list of the request: '
                                  'prefixes can be dropped or altered before they are encoded' % (a.line, d0), s)
            # the unique opaque value of this call carries '<callee>()#<n>@<line>'
            tag = '%s.%s()#' % (a.target, a.meth)
            hits = [seg for seg in txt.split('<') if tag in seg and '@%s' % a.line in seg]
            if not hits:
                bad = bad or ('the %s built at line %s from the request is not part of the returned message'
                              % (a.meth, a.line), s)
    if npaths == 0:
        rep.undecided('R06.a', 'Update.construct', found='no returning path')
    elif bad:
        rep.bad('R06.a', 'Update.construct', file=f.file, line=f.node.lineno, func=f.qualname,
                found='%s (guards: %s)' % (bad[0], ' & '.join(('%s' if b else 'not %s') % t for t, b, l, q in bad[1].path[-4:])),
                expected='withdrawn routes, attributes and NLRI all present', key='Update.construct')
    else:
        rep.ok('R06.a', 'Update.construct', file=f.file, line=f.node.lineno, found='%d path(s)' % npaths)

    # ---------------------------------------------------------------- R06.g / R06.h
    nf, sites = common.reorder_sites(prog, lambda fn: (
        fn.module.name.startswith('yabgp.message.attribute') and '.nlri' not in fn.module.name
        and '.linkstate' not in fn.module.name and '.sr' not in fn.module.name) or fn.module.name == 'yabgp.message.update')
    for fn, node, what in sites:
        key = 'reorder:%s:%s' % (fn.qualname, what)
        rep.bad('R06.g', key, file=fn.file, line=node.lineno, func=fn.qualname,
                found='%s changes the order / multiplicity of values taken from the input' % what,
                expected='elements are encoded / decoded in the order given', key=key)
    if not sites:
        rep.ok('R06.g', 'order-kept', found='%d codec functions scanned' % nf)
    rep.floor('R06.g', 'codec functions', nf, 45)
    common.well_known_names(prog, rep, 'R06.h')
    common.extcom_name_consistency(prog, rep, 'R06.h')

    # ---------------------------------------------------------------- R06.i
    from .c08 import length_threshold_problems
    nthr = 0
    for q in (A + 'aspath.ASPath.construct',):
        fn = prog.func(q)
        outs_t = run_construct(prog, fn, depth=2, budget=15000)
        probs = []
        seenb = set()
        for k, v, s in outs_t:
            if k != 'val' or not isinstance(v, BytesV):
                continue
            items = BL.fields(BL.flatten(v))
            if len(items) >= 3 and items[2][0] == 'field':
                seenb.add(items[2][1])
                probs += length_threshold_problems(items[2], s)
        key = 'length-threshold:%s' % q.split('.')[-2]
        nthr += 1
        if probs:
            rep.bad('R06.i', key, file=fn.file, line=fn.node.lineno, func=q, found=probs[0],
                    expected='1-octet length for <= 255 octets, extended length from 256', key=key)
        elif seenb >= {'B', 'H'}:
            rep.ok('R06.i', key, file=fn.file, line=fn.node.lineno, found='both forms reached')
        elif seenb:
            rep.bad('R06.i', key, file=fn.file, line=fn.node.lineno, func=q,
                    found='only the length form(s) %s are produced: no path packs a well-formed attribute with the other '
                          'form, so an AS_PATH on the other side of 255 octets cannot be encoded' % sorted(seenb),
                    expected='1-octet form up to 255 octets and extended form above', key=key)
        else:
            rep.undecided('R06.i', key, file=fn.file, line=fn.node.lineno, found='no symbolic path')

    # ---------------------------------------------------------------- R06.m
    from .c15 import loop_threshold_problem, cursor_names
    nlp = 0
    for fn in prog.all_functions():
        if not ((fn.module.name.startswith('yabgp.message.attribute') and '.nlri' not in fn.module.name
                 and '.linkstate' not in fn.module.name and '.sr' not in fn.module.name)
                or fn.module.name == 'yabgp.message.update') or not fn.name.startswith('parse'):
            continue
        for i_, w_ in enumerate(sorted([n for n in ast.walk(fn.node) if isinstance(n, ast.While)], key=lambda n: n.lineno)):
            nlp += 1
            thr = loop_threshold_problem(w_, cursor_names(w_))
            key = 'loop-threshold:%s#%d' % (fn.qualname, i_)
            if thr:
                rep.bad('R06.m', key, file=fn.file, line=w_.lineno, func=fn.qualname, found=thr,
                        expected='continue while a whole element remains', key=key)
    if not any(i.rule == 'R06.m' for i in rep.instances):
        rep.ok('R06.m', 'loop-thresholds', found='%d decoder loops' % nlp)
    rep.floor('R06.m', 'decoder loops', nlp, 8)

    # ---------------------------------------------------------------- R06.l
    from .c09 import mask_rule
    mask_rule(prog, rep, 'R06.l')
    quad_padding(prog, rep)

    # ---------------------------------------------------------------- R06.k
    nfk, lks = common.unguarded_table_lookups(prog, lambda fn: (
        fn.module.name.startswith('yabgp.message.attribute') and '.nlri' not in fn.module.name
        and '.linkstate' not in fn.module.name and '.sr' not in fn.module.name and fn.name.startswith('parse'))
        or (fn.module.name == 'yabgp.message.update' and fn.name.startswith('parse')))
    for fn, node, table, ktxt in lks:
        key = 'table-lookup:%s:%s' % (fn.qualname, table)
        rep.bad('R06.k', key, file=fn.file, line=node.lineno, func=fn.qualname,
                found='%s[%s] is read without a test that the key is in the table: a received value outside the table '
                      'raises KeyError and the attribute is reported as malformed although it is legal' % (table, ktxt),
                expected='`%s in %s` (or an equality test of the key) dominates the lookup' % (ktxt, table), key=key)
    if not lks:
        rep.ok('R06.k', 'table-lookups-guarded', found='%d decoder functions scanned' % nfk)

    # ---------------------------------------------------------------- R06.j
    common.report_boundary_splits(prog, rep, 'R06.j', lambda fn: (
        fn.module.name.startswith('yabgp.message.attribute') and '.nlri' not in fn.module.name
        and '.linkstate' not in fn.module.name and '.sr' not in fn.module.name) or fn.module.name == 'yabgp.message.update')

    # ---------------------------------------------------------------- R06.f
    from .c10 import shared_state_writes
    nfun, found = shared_state_writes(prog, lambda fn: fn.module.name.startswith('yabgp.message')
                                      and fn.name.startswith('construct'))
    for fn, node, what in found:
        key = 'state:%s:%s' % (fn.qualname, what)
        rep.bad('R06.f', key, file=fn.file, line=node.lineno, func=fn.qualname,
                found='%s: state written while encoding one message changes the encoding of later ones' % what,
                expected='local variables only', key=key)
    if not found:
        rep.ok('R06.f', 'construct-stateless', found='%d construct functions scanned' % nfun)
    rep.floor('R06.f', 'construct functions', nfun, 60)

    # ---------------------------------------------------------------- R06.b
    width_rule(prog, rep, 'R06.b', only=('Update.construct_prefix_v4',))
    decoder_width(prog, rep, 'R06.b', UPD + '.parse_prefix_list', 32, [Const(False)])

    # ---------------------------------------------------------------- R06.c
    nfmt = 0
    for fn in prog.all_functions():
        if not fn.module.name.startswith('yabgp.message'):
            continue
        for n in ast.walk(fn.node):
            if isinstance(n, ast.Call) and src_of(n.func) in ('struct.pack', 'struct.unpack', 'pack', 'unpack') \
                    and n.args:
                fmt = n.args[0]
                txt = None
                if isinstance(fmt, ast.Constant) and isinstance(fmt.value, str):
                    txt = fmt.value
                elif isinstance(fmt, ast.BinOp) and isinstance(fmt.left, ast.Constant) and \
                        isinstance(fmt.left.value, str):
                    txt = fmt.left.value.replace('%d', '')
                if txt is None:
                    continue
                nfmt += 1
                signed = [c for c in txt if c in 'bhilq']
                if signed:
                    key = 'signed:%s' % fn.qualname
                    rep.bad('R06.c', key, file=fn.file, line=n.lineno, func=fn.qualname,
                            found='format %r uses the signed code(s) %s' % (txt, ''.join(signed)),
                            expected='unsigned wire fields', key=key)
    rep.floor('R06.c', 'struct format strings', nfmt, 400)
    if not any(i.rule == 'R06.c' for i in rep.instances):
        rep.ok('R06.c', 'formats', found='%d format strings, none signed' % nfmt)
    # positive control: the scanner recognises a signed code
    if not [c for c in '!%di'.replace('%d', '') if c in 'bhilq']:
        raise AnalysisError('signed-code scanner self-check failed')

    # ---------------------------------------------------------------- R06.d
    for name, (kw, layout) in sorted(LAYOUT.items()):
        qual = A + name + '.construct'
        fn = prog.func(qual)
        outs = run_construct(prog, fn, depth=2, budget=8000)
        ok = 0
        bad = None
        for k, v, s in outs:
            if k != 'val' or not isinstance(v, BytesV):
                continue
            items = BL.fields(BL.flatten(v))[3:]
            got = []
            for p in items:
                if p[0] == 'field':
                    got.append(p[1])
                elif p[0] == 'opq' and isinstance(p[1], Opaque) and p[1].d.endswith('.packed'):
                    got.append('ip')
                elif p[0] == 'lit':
                    got.append('%dx' % len(p[1]))
                else:
                    got.append('?')
            if got == layout:
                ok += 1
            else:
                bad = bad or got
        key = 'layout:%s' % name.split('.')[-1]
        if bad is not None:
            rep.bad('R06.d', key, file=fn.file, line=fn.node.lineno, func=qual,
                    found='value fields %s' % bad, expected='%s' % layout, key=key)
        elif ok:
            rep.ok('R06.d', key, file=fn.file, line=fn.node.lineno, found='%s' % layout)
        else:
            rep.undecided('R06.d', key, found='no symbolic path')
    for name, fmts in sorted(PARSE_FMT.items()):
        qual = A + name + '.parse'
        fn = prog.func(qual)
        got = []
        for n in ast.walk(fn.node):
            if isinstance(n, ast.Call) and src_of(n.func) == 'struct.unpack' and n.args and \
                    isinstance(n.args[0], ast.Constant):
                got.append(n.args[0].value)
        key = 'parse-format:%s' % name.split('.')[-1]
        if got == fmts:
            rep.ok('R06.d', key, file=fn.file, line=fn.node.lineno, found=got)
        else:
            rep.bad('R06.d', key, file=fn.file, line=fn.node.lineno, func=qual, found='unpack formats %s' % got,
                    expected=fmts, key=key)
    element_layouts(prog, rep)

    # ---------------------------------------------------------------- R06.e
    ca = prog.func(UPD + '.construct_attributes')
    pa = prog.func(UPD + '.parse_attributes')
    ptab = dispatch_table(prog, pa)
    n = 0
    branches = []
    for node in ast.walk(ca.node):
        if isinstance(node, ast.If) and isinstance(node.test, ast.Compare) and src_of(node.test.left) == 'type_code':
            code = prog.try_fold(node.test.comparators[0], ca.module, ca.cls)
            cls = None
            for c in ast.walk(ast.Module(body=node.body, type_ignores=[])):
                if isinstance(c, ast.Call) and isinstance(c.func, ast.Attribute) and c.func.attr == 'construct':
                    r = c.func.value
                    cls = src_of(r.func) if isinstance(r, ast.Call) else src_of(r)
            if code is None or cls is None or isinstance(code, (dict, list, tuple, set)):
                continue
            branches.append((code, cls, node))
    # encoders dispatched through a table: `if type_code in TABLE: TABLE[type_code].construct(value=value)`
    for code, (cls, _a4, line) in sorted(dispatch_table(prog, ca, methods=('construct',)).items(), key=lambda kv: repr(kv[0])):
        if code not in [b[0] for b in branches]:
            branches.append((code, cls[:-2] if cls.endswith('()') else cls, ast.copy_location(ast.Pass(), ca.node)))
    for code, cls, node in branches:
        if True:
            n += 1
            key = 'codec:%s' % code
            if code == 23:
                rep.ok('R06.e', key, file=ca.file, line=node.lineno, nontrivial=False,
                       found='tunnel encapsulation is construct-only by design (C08)')
                continue
            got = ptab.get(code)
            if got is None:
                rep.bad('R06.e', key, file=ca.file, line=node.lineno, func=ca.qualname,
                        found='type %s is encoded by %s but parse_attributes has no decoder for it' % (code, cls),
                        key=key)
            elif got[0] != cls:
                rep.bad('R06.e', key, file=ca.file, line=node.lineno, func=ca.qualname,
                        found='type %s is encoded by %s but decoded by %s' % (code, cls, got[0]), key=key)
            else:
                rep.ok('R06.e', key, file=ca.file, line=node.lineno, found=cls)
    rep.floor('R06.e', 'encoder branches', n, 15)


def decoder_width(prog, rep, rule, qual, maxlen, extra_args):
    """Finite partition: the decoder is interpreted with the first octet of the list = m; the cursor
    at the second loop head must be data[1 + ceil(m/8):]."""
    f = prog.func(qual)
    bad = None
    bads = []
    checked = 0
    for m in range(0, maxlen + 1):
        seen = []

        def hook(ip, stmt, prev, cur, st):
            for name, v in (cur or {}).items():
                if isinstance(v, SliceV):
                    tot = 0
                    x = v
                    while isinstance(x, SliceV):
                        lo = x.lo.value if isinstance(x.lo, Const) and x.lo.value is not None else \
                            (0 if not isinstance(x.lo, Const) and x.lo is None else None)
                        if isinstance(x.lo, Const) and x.lo.value is None:
                            lo = 0
                        if lo is None:
                            seen.append(None)
                            return
                        tot += lo
                        x = x.base
                    seen.append(tot)
        data = BytesV([('lit', bytes([m])), ('opq', Opaque('rest', 'bytes'), None)])
        _f, outs = codec.run(prog, qual, [data] + list(extra_args), {}, loop_hook=hook, may_raise=False)
        want = 1 + int(math.ceil(m / 8.0))
        if not seen:
            bads.append((m, 'no path returns to the loop head'))
            continue
        checked += 1
        wrong = [k for k in seen if k != want]
        if wrong:
            bads.append((m, 'consumes %s octets, expected %d' % (wrong[0], want)))
    key = 'width-decoder:%s' % qual.rsplit('.', 2)[-2] + '.' + qual.rsplit('.', 1)[-1]
    if bads:
        for bad in bads[:6]:
            rep.bad(rule, key + ':m=%d' % bad[0], file=f.file, line=f.node.lineno, func=qual,
                    found='prefix length %d: %s (%d of %d lengths wrong)' % (bad[0], bad[1], len(bads), maxlen + 1),
                    expected='1 + ceil(m / 8) octets per prefix', key=key + ':m=%d' % bad[0])
    else:
        rep.ok(rule, key, file=f.file, line=f.node.lineno, found='%d lengths evaluated' % checked)


def element_layouts(prog, rep):
    """Repeated-element attributes: one element in, its fields out."""
    cases = [
        ('Aggregator(asn2)', A + 'aggregator.Aggregator.construct', {'asn4': Const(False)}, ['H', 'ip']),
        ('Aggregator(asn4)', A + 'aggregator.Aggregator.construct', {'asn4': Const(True)}, ['I', 'ip']),
        ('ASPath(asn2)', A + 'aspath.ASPath.construct', {'asn4': Const(False)}, ['B', 'B', 'H']),
        ('ASPath(asn4)', A + 'aspath.ASPath.construct', {'asn4': Const(True)}, ['B', 'B', 'I']),
        ('ClusterList', A + 'clusterlist.ClusterList.construct', {}, ['ip']),
        ('LargeCommunity', A + 'largecommunity.LargeCommunity.construct', {}, None),
        ('Community', A + 'community.Community.construct', {}, ['I']),
    ]
    for name, qual, kw, layout in cases:
        fn = prog.func(qual)
        f, outs = codec.run(prog, qual, [Opaque('value')], kw, may_raise=False, depth=3)
        best = None
        for k, v, s in outs:
            if k != 'val' or not isinstance(v, BytesV):
                continue
            items = BL.fields(BL.flatten(v))[3:]
            got = []
            for p in items:
                if p[0] == 'field':
                    got.append(p[1])
                elif p[0] == 'opq' and isinstance(p[1], Opaque) and p[1].d.endswith('.packed'):
                    got.append('ip')
                elif p[0] == 'opq':
                    got.append('?')
            if best is None or len(got) > len(best):
                best = got
        key = 'layout:%s' % name
        if best is None:
            rep.undecided('R06.d', key, found='no symbolic path')
            continue
        if layout is None:
            ok = bool(best) and (set(best) == {'I'} or best[0] in ('III', '3I'))
            exp = 'three unsigned 4-octet fields'
        else:
            ok = best == layout or (len(best) > len(layout) and best[:len(layout)] == layout and
                                    set(best[len(layout):]) <= set(layout[-1:]))
            exp = str(layout)
        if ok:
            rep.ok('R06.d', key, file=fn.file, line=fn.node.lineno, found=str(best))
        else:
            rep.bad('R06.d', key, file=fn.file, line=fn.node.lineno, func=qual,
                    found='one element encodes as %s' % best, expected=exp, key=key)



def quad_padding(prog, rep):
    """The IPv4 prefix decoder pads the received octets (0..4 of them) to a dotted quad: a list padding `[x] * k`
    must supply four elements, the /0 route arrives with no octet at all."""
    f = prog.func(UPD + '.parse_prefix_list')
    pads = []
    for n in ast.walk(f.node):
        if isinstance(n, ast.BinOp) and isinstance(n.op, ast.Mult):
            k = prog.try_fold(n.right, f.module, f.cls)
            lst = n.left
            if isinstance(k, int) and (isinstance(lst, ast.List) or (isinstance(lst, ast.Call) and src_of(lst.func) == 'list')):
                pads.append((n, k))
    key = 'quad-padding'
    short = [(n, k) for n, k in pads if k < 4]
    if short:
        n, k = short[0]
        rep.bad('R06.l', key, file=f.file, line=n.lineno, func=f.qualname,
                found='the octet list is padded with %s (%d elements): a /0 route, which carries no octet, is rendered with '
                      '%d octets instead of four' % (src_of(n), k, k), expected='padding of four', key=key)
    else:
        rep.ok('R06.l', key, file=f.file, line=f.node.lineno, nontrivial=bool(pads),
               found='%d list padding(s), each of at least four elements' % len(pads))
