"""C08 - everything the agent constructs is structurally valid (length fields, headers, flags)."""
import ast

from ..front import AnalysisError, NotConst, src_of
from ..values import Const, Sym, Opaque, Obj, ClassV, FuncV, BytesV, TupleV, State, INF
from ..interp import Interp
from .. import prims
from .. import bytelen as BL
from . import common

# RFC category of each attribute type code: (optional, transitive)
ATTR_CATEGORY = {
    1: (0, 1), 2: (0, 1), 3: (0, 1), 4: (1, 0), 5: (0, 1), 6: (0, 1), 7: (1, 1), 8: (1, 1), 9: (1, 0),
    10: (1, 0), 14: (1, 0), 15: (1, 0), 16: (1, 1), 17: (1, 1), 18: (1, 1), 22: (1, 1), 23: (1, 1),
    32: (1, 1), 40: (1, 1), 29: (1, 0),
}
MSG_TYPE = {'yabgp.message.open': 1, 'yabgp.message.update': 2, 'yabgp.message.notification': 3,
            'yabgp.message.keepalive': 4}


# helpers whose result occupies a fixed-width field of the enclosing structure
FIXED_WIDTH = {
    'yabgp.message.attribute.pmsitunnel.PMSITunnel.construct_pmsi_label': 3,     # RFC 6514 s5
    # (ESI and RD widths are decided under C07: esi-size / rd-range, with their known findings)
}


def bytes_like(v):
    return isinstance(v, BytesV) or (isinstance(v, Const) and isinstance(v.value, bytes)) or \
        (isinstance(v, Opaque) and v.kind == 'bytes')


def run_construct(prog, f, depth=6, budget=30000, bind=None, opaque=()):
    """Interpret a construct function on symbolic arguments -> list of (kind, value, state)."""
    ip = Interp(prog, max_paths=budget)
    ip.while_unroll = 1
    ip.max_depth = depth
    ip.unique_opaque_calls = True
    ip.opaque_funcs = set(opaque)
    st = State()
    st.frames.append({})
    args = []
    selfv = None
    params = list(f.params)
    if f.kind == 'method' and params:
        selfv = st.new_obj('inst', bind or f.cls, hint=f.cls.name)
        params = params[1:]
    elif f.kind == 'classmethod' and params:
        selfv = ClassV(bind or f.cls)
        params = params[1:]
    a = f.node.args
    allp = [x.arg for x in a.args]
    nd = len(a.defaults)
    for p in params:
        i = allp.index(p)
        di = i - (len(allp) - nd)
        if di >= 0 and isinstance(a.defaults[di], ast.Constant) and isinstance(a.defaults[di].value, bool):
            args.append(Opaque(p, 'bool'))
        else:
            args.append(Opaque(p))
    return ip.call_func(FuncV(f, selfv), args, {}, st)


def construct_functions(prog):
    out = []
    for f in prog.all_functions():
        if f.module.name.startswith('yabgp.message') and f.name.startswith('construct'):
            out.append(f)
    return sorted(out, key=lambda f: f.qualname)


def check(prog, rep, tier):
    rep.rule('R08.a', 'message headers: 16 x 0xFF, 2-octet length = size of the whole message, type = IANA '
                      'code of the message')
    rep.rule('R08.b', 'attribute header: first octet = flags of the RFC category (optional/transitive bits, low '
                      'nibble 0), second = type code, extended-length bit set iff the length is packed as 2 '
                      'octets, length = size of the value that follows')
    rep.rule('R08.c', 'length-field agreement: every packed field whose value is computed from len() equals the '
                      'size of the bytes that follow it (or of the whole string) on every path; literal TLV '
                      'lengths agree with the literal TLV bodies (symbolic TLV walk)')
    rep.rule('R08.d', 'prefix width: every prefix encoder emits ceil(length / 8) address octets for every '
                      'prefix length (finite partition 0..32 / 0..128), from a full-width address value')
    rep.rule('R08.f', 'flowspec operator octet (encoder side, both flowspec families): for value sizes 1..8 and every '
                      'flag combination the length code written announces exactly the number of value octets that '
                      'follow, or the size is refused loudly')
    rep.rule('R08.g', 'NLRI length covers the label stack: where an NLRI encoder takes its label octets from '
                      'construct_mpls_label_stack (3 octets per label, any depth), the 1-octet NLRI length it packs is '
                      'computed from len() of those octets, not from a fixed label size')
    rep.rule('R08.e', 'fail loudly: every construct function returns bytes or raises on every path (no implicit None)')
    rep.assumptions += ['values that overflow their field after slicing and the 4096 total size are not decided',
                        'loops over input collections are checked for 0 and 1 element (length arithmetic is linear)']
    funcs = construct_functions(prog)
    rep.floor('R08.c', 'construct functions', len(funcs), 60)
    results = {}
    nfields = 0
    targets = []
    for f in funcs:
        subs = [c for c in prog.subclasses(f.cls) if c.find_method(f.name) is f] if f.cls is not None else []
        uses_cls = f.kind == 'classmethod' and any(
            isinstance(n, ast.Attribute) and isinstance(n.value, ast.Name) and n.value.id == 'cls'
            and n.attr.isupper() for n in ast.walk(f.node))
        abstract = False
        if subs and uses_cls:
            for a in ('AFI', 'SAFI'):
                c0, e0 = f.cls.find_attr(a)
                if e0 is None or prog.try_fold(e0, c0.module, c0) is None:
                    abstract = True
        if uses_cls and abstract_base(prog, f) and prog.subclasses(f.cls) and not subs:
            rep.note('%s reads cls.AFI/SAFI which are None in the abstract base: analysed through its '
                     'subclasses (which call it via super)' % f.qualname)
            continue
        if subs and uses_cls and abstract:
            targets += [(f, c) for c in subs]
        else:
            targets.append((f, None))
    for f, bind in targets:
        err = None
        outs = None
        for depth, budget in ((2, 15000), (1, 40000)):
            try:
                outs = run_construct(prog, f, depth, budget, bind)
                err = None
                break
            except AnalysisError as e:
                err = str(e)
        if outs is None:
            rep.undecided('R08.c', f.qualname, file=f.file, line=f.node.lineno, found=err)
            continue
        results.setdefault(f.qualname, (f, []))[1].extend(outs)
        vals = [(v, s) for k, v, s in outs if k == 'val']
        nbytes = [x for x in vals if bytes_like(x[0]) or (isinstance(x[0], TupleV) and
                                                         any(bytes_like(i) for i in x[0].items))]
        # ------------------------------------------------------------ R08.e
        if nbytes:
            nones = [x for x in vals if isinstance(x[0], Const) and x[0].value is None]
            key = 'returns:%s' % f.qualname
            if nones and none_is_loud(prog, f):
                rep.ok('R08.e', key, file=f.file, line=f.node.lineno,
                       found='a None return is concatenated by every caller (TypeError, loud)', nontrivial=False)
            elif nones:
                s = nones[0][1]
                rep.bad('R08.e', key, file=f.file, line=f.node.lineno, func=f.qualname,
                        found='a path returns None instead of bytes (guards: %s)' % ' & '.join(
                            ('%s' if b else 'not %s') % t for t, b, l, q in s.path[-5:]),
                        expected='bytes or an exception on every path', key=key)
            else:
                rep.ok('R08.e', key, file=f.file, line=f.node.lineno, found='%d returning path(s)' % len(vals))
        # ------------------------------------------------------------ R08.c generic
        per_line = {}
        for v, s in vals:
            cands = [v] if not isinstance(v, TupleV) else v.items
            for c in cands:
                if not isinstance(c, BytesV):
                    continue
                for status, line, text, fq in BL.check_len_fields(c, s):
                    if fq is not None and fq != f.qualname:
                        g = None
                        try:
                            g = prog.func(fq)
                        except AnalysisError:
                            pass
                        if g is not None and g.name.startswith('construct'):
                            continue        # checked when that construct function is analysed itself
                    d = per_line.setdefault(line, {'ok': 0, 'bad': []})
                    if status == 'ok':
                        d['ok'] += 1
                    else:
                        d['bad'].append(text)
        for line, d in sorted(per_line.items(), key=lambda x: (x[0] is None, x[0])):
            nfields += 1
            stmt = stmt_at(f, line)
            key = 'lenfield:%s:%s' % (f.qualname, stmt)
            if d['bad']:
                rep.bad('R08.c', key, file=f.file, line=line, func=f.qualname, found=d['bad'][0],
                        expected='length field = size of the data it covers', key=key)
            else:
                rep.ok('R08.c', key, file=f.file, line=line, found='%d path(s)' % d['ok'])
    rep.floor('R08.c', 'len()-carrying fields', nfields, 40)

    # ---------------------------------------------------------------- R08.a
    hdr_classes = set()
    for qual, (f, outs) in sorted(results.items()):
        if f.name != 'construct_header':
            continue
        hdr_classes.add(f.cls)
        want_type = MSG_TYPE.get(f.module.name)
        for k, v, s in outs:
            if k != 'val' or not isinstance(v, BytesV):
                continue
            probs = header_problems(v, s, want_type)
            key = 'header:%s' % qual
            if probs:
                rep.bad('R08.a', key, file=f.file, line=f.node.lineno, func=qual, found='; '.join(probs),
                        expected='ff*16, length = total size, IANA type', key=key)
            else:
                rep.ok('R08.a', key, file=f.file, line=f.node.lineno)
            break
    # what the message-level constructors hand to the transport is exactly that header + body string
    nmsg = 0
    for qual, (f, outs) in sorted(results.items()):
        if f.cls not in hdr_classes or f.name == 'construct_header':
            continue
        if not any(isinstance(n, ast.Attribute) and n.attr == 'construct_header' for n in ast.walk(f.node)):
            continue
        nmsg += 1
        want_type = MSG_TYPE.get(f.module.name)
        key = 'message:%s' % qual
        probs = []
        npaths = 0
        for k, v, s in outs:
            if k != 'val':
                continue
            npaths += 1
            if isinstance(v, BytesV):
                probs = header_problems(v, s, want_type)
            else:
                probs = ['a path returns %s, which is not the header + body string (the header length '
                         'field no longer equals the size of what is sent)' % v.desc()[:160]]
            if probs:
                break
        if probs:
            rep.bad('R08.a', key, file=f.file, line=f.node.lineno, func=qual, found='; '.join(probs),
                    expected='every returning path yields marker + length(total) + type + body', key=key)
        elif npaths:
            rep.ok('R08.a', key, file=f.file, line=f.node.lineno, found='%d returning path(s)' % npaths)
        else:
            rep.undecided('R08.a', key, file=f.file, line=f.node.lineno, found='no returning path')
    rep.floor('R08.a', 'message-level constructors', nmsg, 5)
    qo = 'yabgp.message.open.Open.construct'
    if qo in results:
        open_optlen(rep, 'R08.c', qo, results[qo][0], results[qo][1])
    # route refresh call sites pass 5 / 128
    rr = prog.func('yabgp.message.route_refresh.RouteRefresh.construct_header')
    bgp = prog.func('yabgp.core.protocol.BGP.send_route_refresh')
    tcs = set()
    for n in ast.walk(bgp.node):
        if isinstance(n, ast.Assign) and any(isinstance(t, ast.Name) and t.id == 'type_code' for t in n.targets):
            v_ = prog.try_fold(n.value, bgp.module, bgp.cls)
            if v_ is None and isinstance(n.value, ast.Call) and isinstance(n.value.func, ast.Attribute) and \
                    isinstance(n.value.func.value, ast.Name) and n.value.func.value.id in ('self', 'cls'):
                helper = bgp.cls.find_method(n.value.func.attr)
                if helper is not None:
                    for r_ in ast.walk(helper.node):
                        if isinstance(r_, ast.Return) and r_.value is not None and not (
                                isinstance(r_.value, ast.Constant) and r_.value.value in (None, False)):
                            tcs.add(prog.try_fold(r_.value, helper.module, helper.cls))
                    continue
            tcs.add(v_)
    if tcs and tcs <= {5, 128}:
        rep.ok('R08.a', 'route-refresh-type', file=bgp.file, line=bgp.node.lineno, found=sorted(tcs))
    else:
        rep.bad('R08.a', 'route-refresh-type', file=bgp.file, line=bgp.node.lineno, func=bgp.qualname,
                found='ROUTE-REFRESH type codes %s' % sorted(str(t) for t in tcs), expected='5 / 128',
                key='route-refresh-type')

    # ---------------------------------------------------------------- R08.b
    attr_base = prog.cls('yabgp.message.attribute.Attribute')
    nattr = 0
    for cls in sorted(prog.subclasses(attr_base), key=lambda c: c.qualname):
        f = cls.methods.get('construct')
        if f is None or f.qualname not in results:
            continue
        nattr += 1
        try:
            flag = prog.class_const(cls, 'FLAG')
            aid = prog.class_const(cls, 'ID')
        except NotConst:
            rep.undecided('R08.b', cls.qualname, found='FLAG/ID not constant')
            continue
        key = 'attr:%s' % cls.name
        probs = []
        cat = ATTR_CATEGORY.get(aid)
        if cat is None:
            probs.append('type code %s not in the category table' % aid)
        else:
            if bool(flag & 0x80) != bool(cat[0]) or bool(flag & 0x40) != bool(cat[1]):
                probs.append('FLAG 0x%02x: optional/transitive bits do not match the RFC category of type %d '
                             '(optional=%d transitive=%d)' % (flag, aid, cat[0], cat[1]))
        if flag & 0x0f:
            probs.append('FLAG 0x%02x has low-nibble bits set' % flag)
        if (flag & 0x20) and not ((flag & 0x80) and (flag & 0x40)):
            probs.append('partial bit on a non optional-transitive attribute')
        npaths = 0
        for k, v, s in results[f.qualname][1]:
            if k != 'val' or not isinstance(v, BytesV):
                continue
            items = BL.fields(BL.flatten(v))
            if not items:
                continue        # empty attribute (nothing emitted)
            npaths += 1
            fl = items[:3]
            if len(fl) < 3 or any(p[0] != 'field' for p in fl):
                probs.append('a path does not start with flag, type, length fields: %s' % [p[0] for p in fl])
                break
            fv, tv, lv = fl[0][2], fl[1][2], fl[2]
            if not isinstance(fv, Const):
                probs.append('flag octet is %s' % fv.desc())
                break
            if (fv.value & ~0x10) != (flag & ~0x10):
                probs.append('flag octet 0x%02x differs from FLAG 0x%02x' % (fv.value, flag))
            if not (isinstance(tv, Const) and tv.value == aid):
                probs.append('type octet is %s, expected %d' % (tv.desc(), aid))
            ext = bool(fv.value & 0x10)
            if lv[1] == 'H' and not ext:
                probs.append('2-octet length without the extended-length bit (flag 0x%02x)' % fv.value)
            if lv[1] == 'B' and ext:
                probs.append('extended-length bit set (flag 0x%02x) but the length is 1 octet' % fv.value)
            if lv[1] not in ('B', 'H'):
                probs.append('length field code %s' % lv[1])
            probs += length_threshold_problems(lv, s)
            rest = BL.lf(0)
            for p in items[3:]:
                rest = BL.lf_add(rest, BL.item_len(p, s))
            want = BL.lin(lv[2], s)
            if rest is not None and want is not None and not BL.lf_eq_ip(want, rest):
                probs.append('attribute length %s but the value is %s octets' % (BL.lf_str(want), BL.lf_str(rest)))
            if probs:
                break
        if npaths == 0 and not probs:
            rep.undecided('R08.b', key, file=f.file, line=f.node.lineno, found='no path returns a symbolic byte string')
            continue
        if probs:
            rep.bad('R08.b', key, file=f.file, line=f.node.lineno, func=f.qualname, found='; '.join(probs[:3]),
                    expected='flags per RFC category, type code, matching length', key=key)
        else:
            rep.ok('R08.b', key, file=f.file, line=f.node.lineno, found='%d path(s), FLAG 0x%02x ID %d' % (npaths, flag, aid))
    rep.floor('R08.b', 'attribute classes', nattr, 16)

    # ---------------------------------------------------------------- R08.c fixed-width fields
    for qual, width in sorted(FIXED_WIDTH.items()):
        if qual not in results:
            rep.undecided('R08.c', 'fixed:%s' % qual, found='function not found / not analysed')
            continue
        f, outs = results[qual]
        key = 'fixed:%s' % qual
        bad = None
        n = 0
        for k, v, st in outs:
            if k != 'val' or (isinstance(v, Const) and v.value is None):
                continue
            n += 1
            ln = BL.bytelen(v, st) if bytes_like(v) or isinstance(v, prims.SliceV) else None
            if ln is None or ln[1] or ln[0] != width:
                bad = 'a path returns %s (%s octets)' % (v.desc()[:120], BL.lf_str(ln) if ln is not None else 'unknown')
                break
        if bad:
            rep.bad('R08.c', key, file=f.file, line=f.node.lineno, func=qual, found=bad,
                    expected='exactly %d octets on every returning path: the field has a fixed place in the '
                             'enclosing structure' % width, key=key)
        elif n:
            rep.ok('R08.c', key, file=f.file, line=f.node.lineno, found='%d path(s), %d octets' % (n, width))
        else:
            rep.undecided('R08.c', key, file=f.file, line=f.node.lineno, found='no returning path')

    common.report_signed_formats(prog, rep, 'R08.c', lambda fn: fn.module.name.startswith('yabgp.message')
                                 and fn.name.startswith('construct'), 150)
    # ---------------------------------------------------------------- R08.e no element is skipped silently
    nskip = 0
    for f in funcs:
        for lp in [n for n in ast.walk(f.node) if isinstance(n, (ast.For, ast.While))]:
            for t in [n for n in ast.walk(ast.Module(body=lp.body, type_ignores=[])) if isinstance(n, ast.Try)]:
                for h in t.handlers:
                    hb = ast.Module(body=h.body, type_ignores=[])
                    leaves = any(isinstance(x, (ast.Raise, ast.Return)) for x in ast.walk(hb))
                    skips = any(isinstance(x, ast.Continue) for x in ast.walk(hb)) or \
                        all(isinstance(x, (ast.Pass, ast.Expr)) for x in h.body)
                    if not leaves and skips:
                        nskip += 1
                        key = 'silent-skip:%s:%d' % (f.qualname, nskip)
                        rep.bad('R08.e', 'silent-skip:%s' % f.qualname, file=f.file, line=h.lineno, func=f.qualname,
                                found='an element that cannot be encoded is skipped (except ... continue / pass) inside '
                                      'the loop at line %d: what was already emitted for it stays in the output and the '
                                      'caller is told nothing' % lp.lineno,
                                expected='raise, so that the message is not sent', key='silent-skip:%s' % f.qualname)
    if not nskip:
        rep.ok('R08.e', 'no-silent-skip', found='%d construct functions scanned' % len(funcs))

    # ---------------------------------------------------------------- R08.c stale accumulators
    sa_sites = stale_accumulators(prog, funcs)
    for f, loop, name, line in sa_sites:
        key = 'stale-accumulator:%s:%s' % (f.qualname, name)
        rep.bad('R08.c', key, file=f.file, line=line, func=f.qualname,
                found='%s is grown and emitted inside the loop at line %d but reset outside it: from the second '
                      'iteration on the emitted bytes repeat the earlier iterations, while the count / length '
                      'written with them covers one iteration only' % (name, loop.lineno),
                expected='reset the accumulator inside the loop that emits it', key=key)
    if not sa_sites:
        rep.ok('R08.c', 'accumulators-reset', found='%d construct functions scanned' % len(funcs))

    # ---------------------------------------------------------------- R08.c TLV walks (literal lengths)
    tlv_walks(prog, rep, results)

    mp_layout(prog, rep, results)

    # ---------------------------------------------------------------- R08.d
    width_rule(prog, rep, 'R08.d')
    addpath_layout(prog, rep)
    from .c10 import shared_state_writes
    nfun, found = shared_state_writes(prog, lambda fn: fn.module.name.startswith('yabgp.message')
                                      and fn.name.startswith('construct'))
    for fn, node, what in found:
        key = 'state:%s:%s' % (fn.qualname, what)
        rep.bad('R08.e', key, file=fn.file, line=node.lineno, func=fn.qualname,
                found='%s: an earlier message changes how later ones are built (flags/lengths no longer match)' % what,
                key=key)


def length_threshold_problems(lv, s):
    """The 1-octet / 2-octet choice of an attribute length: where the code bounds the length before
    choosing, the 1-octet form must be reached for at most 255 and the 2-octet form from 256 on."""
    val = lv[2]
    if not isinstance(val, Sym):
        return []
    lo, hi, _ne = s.interval(val.name)
    if lv[1] == 'B' and hi != INF and hi > 255:
        return ['the 1-octet length form is chosen for lengths up to %s: a value of 256..%s octets cannot be '
                'encoded (struct.error) although the 2-octet form exists' % (hi, hi)]
    if lv[1] == 'H' and lo != -INF and lo > 256:
        return ['the 2-octet length form is only chosen from %s octets on' % lo]
    return []


def stale_accumulators(prog, funcs):
    """(function, loop, name, line): a bytes / list accumulator that is grown inside a for-loop and emitted
    inside the same loop, while its reset (x = b'' / '' / []) lies outside that loop: from the second
    iteration on the emitted value repeats what earlier iterations put in."""
    out = []
    for f in funcs:
        resets = {}
        for n in ast.walk(f.node):
            if isinstance(n, ast.Assign) and len(n.targets) == 1 and isinstance(n.targets[0], ast.Name):
                v = n.value
                empty = (isinstance(v, ast.Constant) and v.value in (b'', '')) or \
                    (isinstance(v, (ast.List, ast.Dict)) and not getattr(v, 'elts', getattr(v, 'keys', None)))
                if empty:
                    resets.setdefault(n.targets[0].id, []).append(n)
        if not resets:
            continue
        for loop in [n for n in ast.walk(f.node) if isinstance(n, (ast.For, ast.While))]:
            inside = list(ast.walk(ast.Module(body=loop.body, type_ignores=[])))
            ids = {id(x) for x in inside}
            for name, rs in resets.items():
                if any(id(r) in ids for r in rs):
                    continue        # reset per iteration (at some depth of this loop)
                grown = [x for x in inside if (isinstance(x, ast.AugAssign) and isinstance(x.target, ast.Name)
                                               and x.target.id == name) or
                         (isinstance(x, ast.Call) and isinstance(x.func, ast.Attribute) and
                          x.func.attr in ('append', 'extend') and isinstance(x.func.value, ast.Name)
                          and x.func.value.id == name)]
                if not grown:
                    continue
                emitted = None
                for x in inside:
                    tgt = None
                    if isinstance(x, ast.AugAssign) and isinstance(x.target, ast.Name):
                        tgt, val = x.target.id, x.value
                    elif isinstance(x, ast.Assign) and len(x.targets) == 1 and isinstance(x.targets[0], ast.Name):
                        tgt, val = x.targets[0].id, x.value
                    if tgt is None or tgt == name:
                        continue
                    if any(isinstance(y, ast.Name) and y.id == name and isinstance(y.ctx, ast.Load)
                           for y in ast.walk(val)):
                        emitted = x
                        break
                if emitted is not None:
                    out.append((f, loop, name, emitted.lineno))
    return out


def open_optlen(rep, rule, qo, fo, outs_o):
    """OPEN: the Opt Parm Len octet equals the size of the optional parameters that follow, on every path."""
    probs = []
    npo = 0
    for k, v, st in outs_o:
        if k != 'val' or not isinstance(v, BytesV):
            continue
        items = BL.fields(BL.flatten(v))
        fl_idx = [i for i, p_ in enumerate(items) if p_[0] == 'field']
        if len(fl_idx) < 7:
            continue
        npo += 1
        oi = fl_idx[6]                      # H len, B type | B ver, H as, H hold, I id, B optlen
        if items[oi][1] != 'B':
            probs.append('the 7th field of the OPEN is %s, expected the 1-octet Opt Parm Len' % items[oi][1])
            break
        rest = BL.lf(0)
        for p_ in items[oi + 1:]:
            rest = BL.lf_add(rest, BL.item_len(p_, st))
        want = BL.lin(items[oi][2], st)
        if want is None or rest is None or not BL.lf_eq_ip(want, rest):
            probs.append('Opt Parm Len is %s while %s octets of optional parameters follow' % (
                items[oi][2].desc()[:60], BL.lf_str(rest) if rest is not None else '?'))
            break
    if probs:
        rep.bad(rule, 'open-optlen', file=fo.file, line=fo.node.lineno, func=qo, found=probs[0],
                expected='Opt Parm Len = size of the optional parameters built by this call', key='open-optlen')
    elif npo:
        rep.ok(rule, 'open-optlen', file=fo.file, line=fo.node.lineno, found='%d path(s)' % npo)
    else:
        rep.undecided(rule, 'open-optlen', file=fo.file, line=fo.node.lineno, found='no symbolic path')


def header_problems(v, s, want_type):
    items = BL.fields(BL.flatten(v))
    probs = []
    marker = items[0] if items else None
    mk = None
    if marker is not None and marker[0] == 'lit':
        mk = marker[1]
    elif marker is not None and marker[0] == 'rep' and isinstance(marker[1], Const) and \
            isinstance(marker[2], Const):
        mk = marker[1].value * marker[2].value
    if mk != b'\xff' * 16:
        probs.append('marker is %r' % (mk if mk is not None else marker,))
    fl = [p for p in items if p[0] == 'field']
    if len(fl) < 2 or fl[0][1] != 'H' or fl[1][1] != 'B':
        probs.append('length/type fields are %s' % [p[1] for p in fl])
    else:
        total = BL.lf(0)
        for p in items:
            total = BL.lf_add(total, BL.item_len(p, s))
        if not BL.lf_eq_ip(BL.lin(fl[0][2], s), total):
            probs.append('length field %s, message size %s' % (BL.lf_str(BL.lin(fl[0][2], s)), BL.lf_str(total)))
        t = fl[1][2]
        if want_type is not None and not (isinstance(t, Const) and t.value == want_type):
            probs.append('type field %s, expected %s' % (t.desc(), want_type))
        if want_type is None and isinstance(t, Const) and t.value not in (5, 128):
            probs.append('type field %s' % t.desc())
    return probs


def addpath_layout(prog, rep):
    """With ADD-PATH every prefix is <path id (4)> <length (1)> <prefix>: the path identifier is emitted
    for every value of the identifier (0 is legal)."""
    from .. import codec
    qual = 'yabgp.message.update.Update.construct_prefix_v4'
    f = prog.func(qual)

    def plist(st):
        d = st.new_obj('dict', hint='prefix')
        st.heap[d.oid].items = {'path_id': prims.mk_sym(st, 'path_id', 0, 2 ** 32 - 1),
                                'prefix': Const('10.0.0.0/24')}
        l = st.new_obj('list', hint='prefix_list')
        st.heap[l.oid].items = [d]
        return l
    _f, outs = codec.run(prog, qual, [plist, Const(True)], {}, may_raise=False)
    bad = None
    n = 0
    for k, v, s in outs:
        if k != 'val':
            continue
        n += 1
        items = BL.fields(BL.flatten(v)) if isinstance(v, BytesV) else []
        codes = [p[1] for p in items if p[0] == 'field']
        if codes[:2] != ['I', 'B'] or items[0][2].desc() != 'path_id':
            lo, hi, neq = s.interval('path_id')
            bad = bad or 'for path_id in [%s, %s] the prefix is emitted as %s (no 4-octet path identifier)' % (
                lo, hi, codes[:3])
    key = 'addpath-layout'
    if bad:
        rep.bad('R08.d', key, file=f.file, line=f.node.lineno, func=qual, found=bad,
                expected='<path id> <length> <prefix> for every path id', key=key)
    elif n:
        rep.ok('R08.d', key, file=f.file, line=f.node.lineno, found='%d path(s)' % n)
    else:
        rep.undecided('R08.d', key, found='no path')


def mp_layout(prog, rep, results):
    """MP_REACH_NLRI value layout (RFC 4760): AFI(2) SAFI(1) NH-length(1) next hop, reserved(1)=0, NLRI.
    The next-hop length must cover exactly the bytes up to the reserved octet."""
    q = 'yabgp.message.attribute.mpreachnlri.MpReachNLRI.construct'
    if q not in results:
        return
    f, outs = results[q]
    n = 0
    bad = None
    for k, v, s in outs:
        if k != 'val' or not isinstance(v, BytesV):
            continue
        items = BL.fields(BL.flatten(v))[3:]
        if len(items) < 4 or [p[0] for p in items[:3]] != ['field'] * 3 or \
                [p[1] for p in items[:3]] != ['H', 'B', 'B']:
            bad = bad or ('value does not start with AFI(H) SAFI(B) next-hop length(B): %s' % [
                BL_show(p) for p in items[:3]], items[0][3] if items and items[0][0] == 'field' else None)
            continue
        n += 1
        want = BL.lin(items[2][2], s)
        run = BL.lf(0)
        j = 3
        ok = False
        while j < len(items):
            if BL.lf_eq_ip(run, want):
                p = items[j]
                if (p[0] == 'lit' and p[1][:1] == b'\x00') or \
                        (p[0] == 'field' and p[1] == 'B' and isinstance(p[2], Const) and p[2].value == 0):
                    ok = True
                break
            il = BL.item_len(items[j], s)
            if il is None:
                break
            run = BL.lf_add(run, il)
            j += 1
        if not ok:
            bad = bad or ('next-hop length %s does not end at the reserved octet (next hop bytes: %s)' % (
                BL.lf_str(want), BL.lf_str(run)), items[2][3])
    key = 'mpreach-layout'
    if bad:
        rep.bad('R08.c', key, file=f.file, line=bad[1] or f.node.lineno, func=q, found=bad[0],
                expected='AFI SAFI NHLEN nexthop 0x00 NLRI', key=key)
    elif n:
        rep.ok('R08.c', key, file=f.file, line=f.node.lineno, found='%d path(s)' % n)


def BL_show(p):
    return p[1] if p[0] == 'field' else p[0]


def width_rule(prog, rep, rule, only=None):
    from .. import widths
    for key, qual, maxlen, header, build, cls in widths.ENCODERS:
        if only is not None and key not in only:
            continue
        f = prog.func(qual)
        res = widths.evaluate(prog, qual, build, maxlen, header, cls)
        bad, raises, unknown = widths.summarize(res)
        k = 'width:%s' % key
        if unknown:
            rep.undecided(rule, k, file=f.file, line=f.node.lineno, found='no path for lengths %s' % unknown[:5])
        elif bad:
            rep.bad(rule, k, file=f.file, line=f.node.lineno, func=qual,
                    found='prefix length %d: %s (%d of %d lengths wrong)' % (bad[0][0], bad[0][1], len(bad), maxlen + 1),
                    expected='ceil(length / 8) address octets', key=k)
        else:
            rep.ok(rule, k, file=f.file, line=f.node.lineno,
                   found='%d lengths evaluated, %d raise (loud failure)' % (maxlen + 1, len(raises)))


def abstract_base(prog, f):
    for a in ('AFI', 'SAFI'):
        c0, e0 = f.cls.find_attr(a)
        if e0 is None or prog.try_fold(e0, c0.module, c0) is None:
            return True
    return False


def none_is_loud(prog, f):
    """Every call site of f uses the result as an operand of a bytes concatenation."""
    sites = 0
    for g in prog.all_functions():
        par = {}
        for n in ast.walk(g.node):
            for c in ast.iter_child_nodes(n):
                par[c] = n
        for n in ast.walk(g.node):
            if isinstance(n, ast.Call) and isinstance(n.func, ast.Attribute) and n.func.attr == f.name:
                recv = n.func.value
                if isinstance(recv, ast.Call):
                    recv = recv.func
                r = common.resolve_class(prog, recv, g) if not (isinstance(recv, ast.Name) and recv.id in ('cls', 'self')) else g.cls
                if (r is None or not hasattr(r, 'find_method')) and isinstance(recv, ast.Subscript) and \
                        isinstance(recv.value, ast.Name):
                    # table dispatch: CODECS[type_code].construct(...) with CODECS = {code: Class, ...}
                    for a_ in ast.walk(g.node):
                        if isinstance(a_, ast.Assign) and isinstance(a_.value, ast.Dict) and any(
                                isinstance(t_, ast.Name) and t_.id == recv.value.id for t_ in a_.targets):
                            for dv in a_.value.values:
                                rc = common.resolve_class(prog, dv, g)
                                if rc is not None and hasattr(rc, 'find_method') and rc.find_method(f.name) is f:
                                    r = rc
                if r is None or not hasattr(r, 'find_method') or r.find_method(f.name) is not f:
                    continue
                sites += 1
                p = par.get(n)
                if isinstance(p, ast.BinOp) and isinstance(p.op, ast.Add):
                    continue
                if isinstance(p, ast.AugAssign) and isinstance(p.op, ast.Add):
                    continue
                if isinstance(p, ast.Assign) and len(p.targets) == 1 and isinstance(p.targets[0], ast.Name):
                    nm = p.targets[0].id
                    used = False
                    for m in ast.walk(g.node):
                        if isinstance(m, ast.BinOp) and isinstance(m.op, ast.Add) and \
                                any(isinstance(x, ast.Name) and x.id == nm for x in (m.left, m.right)):
                            used = True
                        if isinstance(m, ast.AugAssign) and isinstance(m.op, ast.Add) and \
                                isinstance(m.value, ast.Name) and m.value.id == nm:
                            used = True
                    if used:
                        continue
                return False
    return sites > 0


def stmt_at(f, line):
    best = None
    for n in ast.walk(f.node):
        if isinstance(n, ast.stmt) and getattr(n, 'lineno', None) is not None and \
                n.lineno <= (line or 0) <= getattr(n, 'end_lineno', n.lineno):
            if best is None or n.lineno >= best.lineno:
                best = n
    if best is None:
        return 'line?'
    txt = ' '.join(src_of(best).split())
    return txt[:90]


# ---------------------------------------------------------------------- symbolic TLV walker
def walk_tlvs(items, st, type_code, len_code_of, nested=None, what='TLV'):
    """items: fields / parts of a byte string that must be a sequence of TLVs.
    -> list of problems."""
    i = 0
    probs = []
    while i < len(items):
        t = items[i]
        if t[0] == 'field' and not isinstance(t[2], Const):
            pre = '%s == ' % t[2].desc()
            for a, b in st.atoms.items():
                if b and a.startswith(pre):
                    try:
                        t = (t[0], t[1], Const(int(a[len(pre):])), t[3])
                    except ValueError:
                        pass
        if t[0] != 'field' or t[1] != type_code or not isinstance(t[2], Const):
            probs.append('%s stream: expected a constant %s type field, found %s' % (what, type_code, _show(t)))
            return probs
        tv = t[2].value
        lc = len_code_of(tv)
        if i + 1 >= len(items) or items[i + 1][0] != 'field' or items[i + 1][1] != lc:
            probs.append('%s type %s: length field should be %r, found %s' % (
                what, tv, lc, _show(items[i + 1]) if i + 1 < len(items) else 'end'))
            return probs
        want = BL.lin(items[i + 1][2], st)
        if want is None:
            probs.append('%s type %s: length %s not linear' % (what, tv, items[i + 1][2].desc()))
            return probs
        j = i + 2
        run = BL.lf(0)
        while not BL.lf_eq_ip(run, want):
            if j >= len(items):
                probs.append('%s type %s (line %s): length %s but the body that follows is %s octets' % (
                    what, tv, items[i + 1][3], BL.lf_str(want), BL.lf_str(run)))
                return probs
            il = BL.item_len(items[j], st)
            if il is None:
                probs.append('%s type %s: body item %s has no symbolic length' % (what, tv, _show(items[j])))
                return probs
            run = BL.lf_add(run, il)
            j += 1
            if not run[1] and not want[1] and run[0] > want[0]:
                probs.append('%s type %s (line %s): length %s cuts through a field (body items sum to %s)' % (
                    what, tv, items[i + 1][3], BL.lf_str(want), BL.lf_str(run)))
                return probs
        if nested and tv in nested:
            skip, sub = nested[tv]
            body = items[i + 2:j]
            # skip `skip` fixed octets
            k = 0
            acc = 0
            while k < len(body) and acc < skip:
                il = BL.item_len(body[k], st)
                acc += il[0] if il is not None and not il[1] else skip
                k += 1
            probs += sub(body[k:], st)
        i = j
    return probs


def _show(p):
    if p[0] == 'field':
        return 'field %s=%s' % (p[1], p[2].desc())
    if p[0] == 'lit':
        return 'literal %r' % (p[1],)
    return p[0]


def tlv_walks(prog, rep, results):
    # Tunnel encapsulation: attr header, then TLV(H,H) holding sub-TLVs (B type; B length for
    # types < 128, H for >= 128); the segment-list sub-TLV (128) holds a reserved octet and
    # segment sub-TLVs (B,B)
    q = 'yabgp.message.attribute.tunnelencaps.TunnelEncaps.construct'
    if q in results:
        f, outs = results[q]
        n = 0
        bad = None

        def seg(items, st):
            return walk_tlvs(items, st, 'B', lambda t: 'B', what='segment sub-TLV')

        def sub(items, st):
            return walk_tlvs(items, st, 'B', lambda t: 'B' if t < 128 else 'H', {128: (1, seg)}, 'sub-TLV')
        for k, v, s in outs:
            if k != 'val' or not isinstance(v, BytesV):
                continue
            n += 1
            items = BL.fields(BL.flatten(v))
            probs = walk_tlvs(items[3:], s, 'H', lambda t: 'H', {15: (0, sub)}, 'tunnel TLV')
            if probs and bad is None:
                bad = probs
        key = 'tlv-walk:TunnelEncaps.construct'
        if bad:
            rep.bad('R08.c', key, file=f.file, line=f.node.lineno, func=q, found='; '.join(bad[:2]),
                    expected='every literal sub-TLV length equals its body', key=key)
        elif n:
            rep.ok('R08.c', key, file=f.file, line=f.node.lineno, found='%d path(s) walked' % n)
        else:
            rep.undecided('R08.c', key, found='no path')
    # segment builder on its own (returns (weight_hex, seg_hex))
    q = 'yabgp.message.attribute.tunnelencaps.TunnelEncaps.construct_weight_and_seg'
    if q in results:
        f, outs = results[q]
        n = 0
        bad = None
        for k, v, s in outs:
            if k != 'val' or not isinstance(v, TupleV):
                continue
            for part in v.items:
                if isinstance(part, BytesV):
                    n += 1
                    probs = walk_tlvs(BL.fields(BL.flatten(part)), s, 'B', lambda t: 'B', what='segment sub-TLV')
                    if probs and bad is None:
                        bad = probs
        key = 'tlv-walk:TunnelEncaps.construct_weight_and_seg'
        if bad:
            rep.bad('R08.c', key, file=f.file, line=f.node.lineno, func=q, found='; '.join(bad[:2]),
                    expected='every literal sub-TLV length equals its body', key=key)
        elif n:
            rep.ok('R08.c', key, file=f.file, line=f.node.lineno, found='%d byte string(s) walked' % n)
    # OPEN capabilities: each Capability.construct result is a sequence of optional parameters
    # (B type 2, B length) holding capabilities (B code, B length)
    q = 'yabgp.message.open.Capability.construct'
    f = prog.func(q)
    n = 0
    bad = None
    for code, clen in ((65, 4), (2, 0), (128, 0), (64, 0), (1, 4), (69, 4), (5, 0), (70, 0)):
        for k, v, s in run_capability(prog, f, code, clen):
            if k != 'val':
                continue
            if not isinstance(v, BytesV):
                if isinstance(v, Const) and v.value is None:
                    bad = bad or ['capability code %d: construct returns None' % code]
                continue
            n += 1

            def caps(items, st):
                return walk_tlvs(items, st, 'B', lambda t: 'B', what='capability')
            probs = walk_tlvs(BL.fields(BL.flatten(v)), s, 'B', lambda t: 'B', {2: (0, caps)}, 'optional parameter')
            if probs and bad is None:
                bad = ['capability code %d: %s' % (code, probs[0])]
    key = 'tlv-walk:Capability.construct'
    if bad:
        rep.bad('R08.c', key, file=f.file, line=f.node.lineno, func=q, found='; '.join(bad[:2]),
                expected='parameter and capability lengths equal their bodies', key=key)
    elif n:
        rep.ok('R08.c', key, file=f.file, line=f.node.lineno, found='%d byte string(s) walked' % n)
    else:
        rep.undecided('R08.c', key, found='no capability path')

    # ---------------------------------------------------------------- R08.g
    label_stack_in_length(prog, rep)

    # ---------------------------------------------------------------- R08.f
    from .c07 import operator_octet
    for fsq in ('yabgp.message.attribute.nlri.ipv4_flowspec.IPv4FlowSpec',
                'yabgp.message.attribute.nlri.ipv6_flowspec.IPv6FlowSpec'):
        operator_octet(prog, rep, fsq, rule='R08.f', decode=False)


def run_capability(prog, f, code, clen):
    ip = Interp(prog, max_paths=5000)
    ip.while_unroll = 1
    st = State()
    st.frames.append({})
    o = st.new_obj('inst', f.cls, hint='Capability')
    h = st.heap[o.oid]
    h.fields['capa_code'] = Const(code)
    h.fields['capa_length'] = Const(clen)
    h.fields['capa_value'] = Opaque('capa_value')
    return ip.call_func(FuncV(f, o), [Opaque('my_capability')], {}, st)



def label_stack_in_length(prog, rep):
    n = 0
    for f in prog.all_functions():
        if not f.module.name.startswith('yabgp.message.attribute.nlri'):
            continue
        lab = [a for a in ast.walk(f.node) if isinstance(a, ast.Assign) and isinstance(a.value, ast.Call) and
               src_of(a.value.func).endswith('construct_mpls_label_stack') and isinstance(a.targets[0], ast.Name)]
        if not lab:
            continue
        var = lab[0].targets[0].id
        packs = [c for c in ast.walk(f.node) if isinstance(c, ast.Call) and src_of(c.func) == 'struct.pack' and c.args
                 and isinstance(c.args[0], ast.Constant) and c.args[0].value == '!B' and len(c.args) == 2
                 and not isinstance(c.args[1], ast.Constant)]
        for c in packs:
            txt = common.unalias(f.node, c.args[1])
            if 'len' not in txt and 'prefix' not in txt and 'mask' not in txt:
                continue            # some other 1-octet field
            n += 1
            key = 'nlri-length:%s' % f.qualname.split('yabgp.message.attribute.nlri.')[-1]
            covered = any(isinstance(x, ast.Call) and src_of(x.func) == 'len' and var in src_of(x)
                          for x in ast.walk(ast.parse(txt, mode='eval')))
            if covered:
                rep.ok('R08.g', key, file=f.file, line=c.lineno, found=txt[:80])
            else:
                rep.bad('R08.g', key, file=f.file, line=c.lineno, func=f.qualname,
                        found='the NLRI length is %s: the size of %s (3 octets per label) is not in it, so a stack of '
                              'two or more labels is longer than the length announces and the next route is read from '
                              'the middle of this one' % (txt[:80], var),
                        expected='len(%s) * 8 in the length' % var, key=key)
    rep.floor('R08.g', 'NLRI encoders with a label stack', n, 2)
