"""C12 - at most one TCP connection or connection attempt (structural part)."""
import ast

from ..front import AnalysisError, src_of
from ..values import Const, Obj
from ..table import ORDER
from ..session import cval, BGP_Q
from . import common

FACTORY = 'yabgp/core/factory.py'


def stale_lost_rule(tab, rep, rule):
    """connectionLost of an earlier, already replaced connection does not touch the tracked one."""
    seen = {}
    for state in ORDER:
        for r in tab.get('TCP_CLOSED_OLD', state):
            if r.kind == 'raise':
                continue
            name = 'TCP_CLOSED_OLD@%s' % state
            tracked = r.field('fsm', 'protocol')
            estab = r.field('peering', 'estab_protocol')
            probs = []
            if not (isinstance(tracked, Obj) and tracked.oid == r.poid):
                probs.append('fsm.protocol becomes %s' % cval(tracked))
            if not (isinstance(estab, Obj) and estab.oid == r.poid):
                probs.append('estab_protocol becomes %s' % cval(estab))
            if r.final != state:
                probs.append('state %s -> %s' % (state, r.final))
            if r.closes() or r.sends():
                probs.append('closes / sends on the current connection')
            if probs:
                if seen.get(name) != 'bad':
                    seen[name] = 'bad'
                    rep.bad(rule, name, file=common.row_file(r) or FACTORY, line=common.row_line(r),
                            func='BGPPeering.connection_closed', found='; '.join(probs) +
                            ': the live connection is then open but no longer tracked (nothing can close it)',
                            expected='no effect on the tracked connection', key=name, path=r.describe())
            elif name not in seen:
                seen[name] = 'ok'
                rep.ok(rule, name, file=FACTORY, line=common.row_line(r))
    if not seen:
        rep.undecided(rule, 'TCP_CLOSED_OLD', found='no rows')


def check(prog, rep, tier):
    rep.rule('R12.a', 'handle retention: the connector returned by reactor.connectTCP is stored in an attribute '
                      'of the peering (otherwise a pending attempt can never be aborted)')
    rep.rule('R12.b', 'release before acquire: a path that starts a new TCP connect from a non-Idle state first '
                      'aborts the pending attempt and closes the tracked connection')
    rep.rule('R12.c', 'tracked reference: installing a new protocol instance as the tracked connection closes '
                      'a possibly live previous one first')
    rep.rule('R12.d', 'sends follow the tracked connection: transport.write is reachable only through the BGP '
                      'send methods; on every path all writes go to the transport of the protocol the FSM tracks')
    rep.rule('R12.e', 'a late connectionLost of an earlier, already closed connection does not touch the tracked '
                      'connection: fsm.protocol / estab_protocol and the state are unchanged')
    rep.rule('R12.i', 'after our own close the restart is pushed back by a full idle-hold period: connectionLost re-arms the '
                      'idle-hold timer on every path where automatic start is allowed (rule shared with C02 R02.c)')
    rep.rule('R12.j', 'an automatic restart cannot begin while a connect attempt may still be pending: the shipped default of '
                      'idle_hold_time is not below the timeout of the connectTCP call (the mechanism never aborts a '
                      'pending attempt, known findings R12.a/R12.b, so only the ordering of these two numbers keeps a '
                      'stray return to Idle harmless)')
    rep.rule('R12.h', 'a connection that comes up is adopted or closed: no TCP-established path ends in Idle with the '
                      'new connection left open')
    rep.rule('R12.g', 'an attempt is recorded: every path that starts a TCP connect leaves the state machine in '
                      'Connect (or Active), so that no other start event dials beside it')
    rep.rule('R12.f', 'every path on which the agent abandons a live tracked connection (ends in Idle from a '
                      'non-Idle state) requests its close')
    rep.assumptions += ['schedule clauses (when the peer answers a pending connect) are not decided']
    facts = common.env_facts(prog)
    tab = common.get_table(prog, dot_dead=facts['dot_dead'])
    rep.analysed['table_rows'] = sum(len(v) for v in tab.rows.values())

    # ---------------------------------------------------------------- R12.a
    n = 0
    for f in prog.all_functions():
        for node in ast.walk(f.node):
            if isinstance(node, ast.Call) and src_of(node.func).endswith('connectTCP'):
                n += 1
                stored = None
                for st in ast.walk(f.node):
                    if isinstance(st, ast.Assign) and st.value is node:
                        tg = st.targets[0]
                        if isinstance(tg, ast.Attribute):
                            stored = src_of(tg)
                        elif isinstance(tg, ast.Name):
                            # local: look for self.<x> = <local>
                            for st2 in ast.walk(f.node):
                                if isinstance(st2, ast.Assign) and isinstance(st2.value, ast.Name) and \
                                        st2.value.id == tg.id and isinstance(st2.targets[0], ast.Attribute):
                                    stored = src_of(st2.targets[0])
                key = 'connectTCP:%s' % f.qualname
                if stored:
                    rep.ok('R12.a', key, file=f.file, line=node.lineno, found='stored in %s' % stored)
                else:
                    rep.bad('R12.a', key, file=f.file, line=node.lineno, func=f.qualname,
                            found='the connector returned by reactor.connectTCP is not retained',
                            expected='self.<attr> = reactor.connectTCP(...)', key=key)
    if n == 0:
        rep.undecided('R12.a', 'connectTCP', found='no connectTCP call site in the package')

    # ---------------------------------------------------------------- R12.b
    seen = {}
    for (ev, state), rows in sorted(tab.rows.items()):
        if state == 'Idle' or ev in ('TCP_UP2',):
            continue
        if ev == 'T_delay_open' and facts['dot_dead']:
            continue
        for r in rows:
            if not r.connects():
                continue
            name = '%s@%s' % (ev, state)
            first = [e[0] for e in r.events].index('connectTCP')
            before = r.events[:first]
            aborted = any(a.kind == 'call' and a.meth in ('disconnect', 'stopConnecting') for a in r.actions)
            closed = any(e[0] == 'close' for e in before) or r.regime != 'live'
            for what, okflag, text in (('abort', aborted, 'the pending attempt is not aborted'),
                                       ('close', closed, 'the tracked connection is not closed')):
                nm = '%s:%s' % (name, what)
                if okflag:
                    if nm not in seen:
                        seen[nm] = 'ok'
                        rep.ok('R12.b', nm, file=common.row_file(r), line=common.row_line(r))
                elif seen.get(nm) != 'bad':
                    seen[nm] = 'bad'
                    rep.bad('R12.b', nm, file=common.row_file(r), line=common.row_line(r),
                            func=common.row_func(r), found='new connectTCP while ' + text,
                            expected='abort + close before reconnect', key=nm, path=r.describe())
    if not seen:
        rep.undecided('R12.b', 'reconnect-sites', found='no path reconnects from a non-Idle state')

    # ---------------------------------------------------------------- R12.c
    seen = {}
    for state in ORDER:
        for r in tab.get('TCP_UP2', state):
            name = 'TCP_UP2@%s' % state
            w = tab.model.world
            newp = r.poid
            oldp = getattr(r, 'old_poid', None)
            tracked = r.field('fsm', 'protocol')
            replaced = isinstance(tracked, Obj) and tracked.oid == newp
            if not replaced:
                if name not in seen:
                    seen[name] = 'ok'
                    rep.ok('R12.c', name, file=FACTORY, found='second connection does not replace the tracked one',
                           nontrivial=False)
                continue
            old_tr = r.st.heap[oldp].fields.get('transport')
            old_closed = any(e[0] == 'close' and isinstance(old_tr, Obj) and e[1].startswith(old_tr.oid)
                             for e in r.events)
            if old_closed:
                if name not in seen:
                    seen[name] = 'ok'
                    rep.ok('R12.c', name, file=FACTORY, line=common.row_line(r))
            elif seen.get(name) != 'bad':
                seen[name] = 'bad'
                rep.bad('R12.c', name, file=FACTORY, line=common.row_line(r), func='BGPPeering._initProtocol',
                        found='a second connection replaces fsm.protocol/estab_protocol while the previous, '
                              'still connected one is neither closed nor referenced any more',
                        expected='close the previous connection (or refuse the new one)', key=name,
                        path=r.describe())
    if not seen:
        rep.undecided('R12.c', 'TCP_UP2', found='no second-connection rows')

    # ---------------------------------------------------------------- R12.e
    stale_lost_rule(tab, rep, 'R12.e')
    from .c02 import closed_rearms_rule
    closed_rearms_rule(tab, rep, 'R12.i')
    idle_hold_vs_connect_timeout(prog, rep)
    # ---------------------------------------------------------------- R12.f
    seen = {}
    for (ev, state), rows in sorted(tab.rows.items()):
        if state == 'Idle' or ev in ('TCP_DOWN', 'TCP_CLOSED', 'TCP_FAIL', 'TCP_UP2', 'TCP_CLOSED_OLD', 'TCP_UP'):
            continue
        if ev == 'T_delay_open' and facts['dot_dead']:
            continue
        for r in rows:
            if r.regime != 'live' or r.final != 'Idle' or r.kind == 'raise':
                continue
            name = 'leave:%s@%s' % (ev if ev != 'WIRE' else 'WIRE:' + r.wire['cls'], state)
            if r.closes():
                if name not in seen:
                    seen[name] = 'ok'
                    rep.ok('R12.f', name, file=common.row_file(r), line=common.row_line(r))
            elif seen.get(name) != 'bad':
                seen[name] = 'bad'
                rep.bad('R12.f', name, file=common.row_file(r), line=common.row_line(r), func=common.row_func(r),
                        found='the session is given up (-> Idle) but the connection is not closed: it stays open '
                              'and, after the next connect, unreferenced', expected='closeConnection()', key=name,
                        path=r.describe())
    if not seen:
        rep.undecided('R12.f', 'leave', found='no rows')

    # ---------------------------------------------------------------- R12.g
    seen = {}
    for (ev, state), rows in sorted(tab.rows.items()):
        if ev == 'T_delay_open' and facts['dot_dead']:
            continue
        for r in rows:
            if r.kind == 'raise' or not r.connects():
                continue
            name = 'attempt-recorded:%s@%s' % (ev if ev != 'WIRE' else 'WIRE:' + r.wire['cls'], state)
            if r.final in ('Connect', 'Active'):
                if name not in seen:
                    seen[name] = 'ok'
                    rep.ok('R12.g', name, file=common.row_file(r), line=common.row_line(r))
            elif seen.get(name) != 'bad':
                seen[name] = 'bad'
                rep.bad('R12.g', name, file=common.row_file(r), line=common.row_line(r), func=common.row_func(r),
                        found='a TCP connect is started but the state machine ends in %s: it does not know that an '
                              'attempt is pending, so the next start event (idle-hold expiry, manual start) dials '
                              'again beside it' % r.final, expected='state Connect while an attempt is pending',
                        key=name, path=r.describe())
    if not seen:
        rep.undecided('R12.g', 'attempt-recorded', found='no row starts a connect')

    # ---------------------------------------------------------------- R12.h
    seen = {}
    for (ev, state), rows in sorted(tab.rows.items()):
        if ev != 'TCP_UP':
            continue
        for r in rows:
            if r.kind == 'raise':
                continue
            name = 'connection-adopted:%s@%s' % (ev, state)
            if r.final == 'Idle' and not r.closes():
                if seen.get(name) != 'bad':
                    seen[name] = 'bad'
                    rep.bad('R12.h', name, file=common.row_file(r), line=common.row_line(r), func=common.row_func(r),
                            found='a connection that comes up while the state machine is in %s is neither adopted '
                                  '(the machine ends in Idle, no OPEN, no timer) nor closed: it stays open, and the next '
                                  'start dials a second one beside it' % state,
                            expected='adopt the connection (Connect -> OpenSent) or close it', key=name,
                            path=r.describe())
            elif name not in seen:
                seen[name] = 'ok'
                rep.ok('R12.h', name, file=common.row_file(r), line=common.row_line(r))
    if not seen:
        rep.undecided('R12.h', 'connection-adopted', found='no TCP_UP rows')

    # ---------------------------------------------------------------- R12.d
    bgp = prog.cls(BGP_Q)
    nw = 0
    for f in prog.all_functions():
        for node in ast.walk(f.node):
            if isinstance(node, ast.Call) and isinstance(node.func, ast.Attribute) and node.func.attr == 'write' \
                    and 'transport' in src_of(node.func.value):
                nw += 1
                key = 'write:%s' % f.qualname
                if f.cls is bgp:
                    rep.ok('R12.d', key, file=f.file, line=node.lineno)
                else:
                    rep.bad('R12.d', key, file=f.file, line=node.lineno, func=f.qualname,
                            found='transport.write outside the BGP protocol class', key=key)
    rep.floor('R12.d', 'transport.write sites', nw, 5)
    seen = {}
    for (ev, state), rows in sorted(tab.rows.items()):
        for r in rows:
            tracked = r.field('fsm', 'protocol')
            if not isinstance(tracked, Obj):
                continue
            tr = r.st.heap[tracked.oid].fields.get('transport')
            for a in r.actions:
                if a.kind == 'call' and a.meth == 'write' and a.target.startswith('transport'):
                    name = '%s@%s' % (ev, state)
                    if isinstance(tr, Obj) and a.target.split('.')[0] == tr.oid:
                        if name not in seen:
                            seen[name] = 'ok'
                            rep.ok('R12.d', name, file='yabgp/core/protocol.py', line=a.line)
                    elif seen.get(name) != 'bad':
                        seen[name] = 'bad'
                        rep.bad('R12.d', name, file='yabgp/core/protocol.py', line=a.line, func=a.func,
                                found='message written to %s while the FSM tracks %s' % (a.target, cval(tr)),
                                expected='sends go to the tracked connection', key=name, path=r.describe())



def idle_hold_vs_connect_timeout(prog, rep):
    cm = prog.modules['yabgp.config']
    default = None
    line = None
    for n in ast.walk(cm.tree):
        if isinstance(n, ast.Call) and src_of(n.func).endswith('IntOpt') and n.args and \
                isinstance(n.args[0], ast.Constant) and n.args[0].value == 'idle_hold_time':
            for k in n.keywords:
                if k.arg == 'default':
                    default = prog.try_fold(k.value, cm)
                    line = n.lineno
    timeout = None
    cf = prog.func('yabgp.core.factory.BGPPeering.connect')
    for n in ast.walk(cf.node):
        if isinstance(n, ast.Call) and src_of(n.func).endswith('connectTCP'):
            timeout = 30            # Twisted's default
            for k in n.keywords:
                if k.arg == 'timeout':
                    timeout = prog.try_fold(k.value, cf.module, cf.cls)
    key = 'idle-hold>=connect-timeout'
    if not isinstance(default, (int, float)) or not isinstance(timeout, (int, float)):
        rep.undecided('R12.j', key, found='idle_hold_time default %r, connect timeout %r' % (default, timeout))
    elif default < timeout:
        rep.bad('R12.j', key, file=cm.relpath, line=line,
                found='idle_hold_time defaults to %s s, the TCP connect timeout is %s s: a return to Idle while an attempt '
                      'is pending (stale hold timer, late close) starts the next attempt on top of it' % (default, timeout),
                expected='idle hold >= connect timeout', key=key)
    else:
        rep.ok('R12.j', key, file=cm.relpath, line=line, found='idle hold %s s >= connect timeout %s s' % (default, timeout))
