"""C19 - Adj-RIB-In and the version counters track exactly the updates applied (structural part)."""
import ast

from ..front import AnalysisError, src_of
from ..values import Const, Sym, Opaque, Obj, State, FuncV
from ..interp import Interp
from ..table import ORDER
from ..session import BGP_Q
from . import common

PROTO = 'yabgp/core/protocol.py'


def world(prog):
    """A BGP instance built by its own constructor, with open RIB / rule dictionaries."""
    ip = Interp(prog, max_paths=20000)
    ip.while_unroll = 1
    st = State()
    st.frames.append({})
    bgp = prog.cls(BGP_Q)
    res = ip.instantiate(bgp, [], {}, st)
    if len(res) != 1 or res[0][0] != 'val':
        raise AnalysisError('BGP.__init__ is not straight-line')
    o, st = res[0][1], res[0][2]
    h = st.heap[o.oid]
    for rib in ('adj_rib_in', 'adj_rib_out'):
        d = st.new_obj('dict', hint=rib)
        inner = st.new_obj('dict', hint=rib + '.ipv4')
        st.heap[inner.oid].open = True
        st.heap[d.oid].items = {'ipv4': inner}
        h.fields[rib] = d
    for f in ('flowspec_send_dict', 'flowspec_receive_dict', 'sr_send_dict', 'sr_receive_dict',
              'mpls_vpn_send_dict', 'mpls_vpn_receive_dict'):
        v = h.fields.get(f)
        if isinstance(v, Obj):
            st.heap[v.oid].open = True
    h.fields['adj_rib_in_ipv4_tree'] = Opaque('radix')
    st.actions = []
    st.writes = []
    st.path = []
    st.base = st.counter
    return ip, st, o


def versions(st, o, which):
    v = st.heap[o.oid].fields.get(which)
    return {k: (x.value if isinstance(x, Const) else x.desc()) for k, x in st.heap[v.oid].items.items()}


def mutations(st, store_oids):
    out = []
    for (obj, fld, v, line, fq) in st.writes:
        if obj in store_oids:
            out.append(fld)
    return out


def run_case(prog, meth, args_builder):
    ip, st, o = world(prog)
    bgp = prog.cls(BGP_Q)
    f = bgp.find_method(meth)
    if f is None:
        raise AnalysisError('BGP.%s vanished' % meth)
    args = args_builder(st)
    return ip.call_func(FuncV(f, o), args, {}, st), o


def mk_list(st, items):
    o = st.new_obj('list', hint='list')
    st.heap[o.oid].items = list(items)
    return o


def mk_dict(st, items):
    o = st.new_obj('dict', hint='dict')
    st.heap[o.oid].items = dict(items)
    return o


def check(prog, rep, tier):
    rep.rule('R19.a', 'case table: for every RIB / version updater one withdrawal bumps the version and removes the '
                      'entry iff it is present; one announcement bumps the version iff the entry is absent or its '
                      'attributes differ, and stores it; nothing else moves; withdrawals are applied before '
                      'announcements')
    rep.rule('R19.b', 'flush on session change: connectionMade and connectionLost reset both RIBs on every path')
    rep.rule('R19.c', 'the RIB is touched only for a well-formed IPv4 UPDATE with RIB maintenance enabled; only BGP '
                      'methods write the RIB and version dictionaries')
    rep.rule('R19.e', 'the Adj-RIB-In key is canonical: the IPv4 prefix decoder zeroes the bits beyond the prefix length, so the same '
                      'route always yields the same key whatever the sender put there (rule shared with C09 R09.b)')
    rep.rule('R19.d', 'representation agreement: the family tests of the version updaters compare afi_safi with a '
                      'literal of the type their producer yields (the decoders for received updates, JSON arrays for '
                      'sent ones); a list never equals a tuple, so a mismatch makes the family branch dead')
    rep.assumptions += ['the dictionary model; the radix tree mirror is outside the statement',
                        'one item per update is analysed; by induction over the per-item loop any sequence follows']
    bgp = prog.cls(BGP_Q)

    # ---------------------------------------------------------------- R19.a: IPv4 RIB updaters
    for meth, rib, ver in (('update_rib_in_ipv4', 'adj_rib_in', 'receive_version'),
                           ('update_rib_out_ipv4', 'adj_rib_out', 'send_version')):
        f = bgp.find_method(meth)
        for kind in ('withdraw', 'announce'):
            def build(st, kind=kind):
                p = Opaque('prefix')
                msg = mk_dict(st, {'withdraw': mk_list(st, [p] if kind == 'withdraw' else []),
                                   'nlri': mk_list(st, [p] if kind == 'announce' else []),
                                   'attr': Opaque('attrs')})
                return [msg]
            outs, o = run_case(prog, meth, build)
            key = '%s:%s' % (meth, kind)
            probs = []
            seen = set()
            for k, v, s in outs:
                if k != 'val':
                    continue
                base = {'ipv4': 0, 'flowspec': 0, 'sr_policy': 0, 'mpls_vpn': 0}
                vs = versions(s, o, ver)
                delta = {x: (vs[x] - base[x]) if isinstance(vs.get(x), int) else vs.get(x) for x in base}
                other = versions(s, o, 'send_version' if ver == 'receive_version' else 'receive_version')
                ribo = s.heap[s.heap[o.oid].fields[rib].oid].items['ipv4'].oid
                muts = mutations(s, {ribo})
                present = None
                equal = None
                for t, b, l, q in s.path:
                    if ' in %s' % ribo in t:
                        present = b
                    if '==' in t and 'attrs' in t:
                        equal = b
                case = (present, equal)
                seen.add(case)
                d = delta['ipv4']
                if any(v2 for k2, v2 in delta.items() if k2 != 'ipv4') or any(v2 for v2 in other.values()):
                    probs.append('another counter moves')
                if kind == 'withdraw':
                    if present is True and not (d == 1 and any(m.startswith('pop') for m in muts)):
                        probs.append('present prefix withdrawn: version +%s, mutations %s' % (d, muts))
                    if present is False and (d != 0 or muts):
                        probs.append('absent prefix withdrawn: version +%s, mutations %s' % (d, muts))
                else:
                    stored = any(m.startswith('[') for m in muts)
                    if present is False and not (d == 1 and stored):
                        probs.append('new prefix: version +%s, stored=%s' % (d, stored))
                    if present is True and equal is True and d != 0:
                        probs.append('same attributes re-announced: version +%s' % d)
                    if present is True and equal is False and not (d == 1 and stored):
                        probs.append('changed attributes: version +%s, stored=%s' % (d, stored))
                    if cval_ret(v) is not True:
                        probs.append('returns %s' % cval_ret(v))
            need = {(True, None), (False, None)} if kind == 'withdraw' else {(False, None), (True, True), (True, False)}
            if not need <= seen:
                probs.append('cases distinguished: %s, expected %s' % (sorted(map(str, seen)), sorted(map(str, need))))
            if probs:
                rep.bad('R19.a', key, file=f.file, line=f.node.lineno, func=f.qualname, found='; '.join(probs[:2]),
                        expected='version moves exactly when the table changes', key=key)
            else:
                rep.ok('R19.a', key, file=f.file, line=f.node.lineno, found='%d case(s)' % len(seen))
        # withdrawals before announcements
        fors = [n for n in ast.walk(f.node) if isinstance(n, ast.For)]
        order = [src_of(n.iter) for n in sorted(fors, key=lambda n: n.lineno)]
        key = '%s:order' % meth
        if order[:2] == ["msg['withdraw']", "msg['nlri']"]:
            rep.ok('R19.a', key, file=f.file, line=f.node.lineno)
        else:
            rep.bad('R19.a', key, file=f.file, line=f.node.lineno, func=f.qualname,
                    found='items are processed in the order %s' % order, expected='withdraw, then nlri', key=key)

    # ---------------------------------------------------------------- R19.a: rule-table version updaters
    fams = {'flowspec': [1, 133], 'mpls_vpn': [1, 128]}
    for meth, ver, sfx in (('update_receive_verion', 'receive_version', 'receive'),
                           ('update_send_version', 'send_version', 'send')):
        f = bgp.find_method(meth)
        for fam, afisafi in sorted(fams.items()):
            for kind, code, lk in (('announce', 14, 'nlri'), ('withdraw', 15, 'withdraw')):
                # the family is handed over in both sequence kinds: which one the code compares with (and whether
                # that is what the producer yields) is R19.d's question, here the body of the branch is judged
                allouts = []
                for as_tuple in (False, True):
                    def build(st, code=code, lk=lk, afisafi=afisafi, meth=meth, as_tuple=as_tuple):
                        rule = Opaque('rule')
                        fam_v = Const(tuple(afisafi)) if as_tuple else mk_list(st, [Const(x) for x in afisafi])
                        inner = mk_dict(st, {'afi_safi': fam_v, lk: mk_list(st, [rule])})
                        attr = mk_dict(st, {code: inner})
                        args = [attr, Opaque('nlri'), Opaque('withdraw')]
                        if meth == 'update_send_version':
                            args = [Opaque('peer_ip')] + args
                        return args
                    outs_, o_ = run_case(prog, meth, build)
                    allouts += [(k, v, s, o_) for k, v, s in outs_]
                key = '%s:%s:%s' % (meth, fam, kind)
                store = '%s_%s_dict' % (fam, sfx)
                probs = []
                seen = set()
                for k, v, s, o in allouts:
                    if k != 'val':
                        continue
                    vs = versions(s, o, ver)
                    d = vs.get(fam)
                    others = [x for kk, x in vs.items() if kk != fam and x]
                    so = s.heap[o.oid].fields[store].oid
                    muts = mutations(s, {so}) + [a.meth for a in s.actions if a.kind == 'write' and so in a.target]
                    present = equal = None
                    for t, b, l, q in s.path:
                        if ' in %s' % so in t:
                            present = b
                        if '==' in t and so in t:
                            equal = b
                    if present is None and equal is None and not muts and not d:
                        continue        # the representation this code does not compare with: branch not entered
                    seen.add((present, equal))
                    if others:
                        probs.append('another family counter moves: %s' % vs)
                    stored = any(str(m).startswith('[') for m in muts)
                    removed = any(str(m).startswith(('pop', 'del')) for m in muts) or any(
                        a.kind == 'write' and a.target == 'del' and store in str(a.meth) for a in s.actions)
                    if kind == 'withdraw':
                        if present is True and d != 1:
                            probs.append('present rule withdrawn: version +%s' % d)
                        if present is True and not removed:
                            probs.append('present rule withdrawn but not removed from %s (mutations %s)' % (store, muts))
                        if present is False and d != 0:
                            probs.append('absent rule withdrawn: version +%s' % d)
                        if present is False and (muts or removed):
                            probs.append('absent rule withdrawn: table mutated %s' % muts)
                    else:
                        if present is False and d != 1:
                            probs.append('new rule: version +%s' % d)
                        if present is False and not stored:
                            probs.append('new rule is not stored in %s' % store)
                        if present is True and equal is True and d != 0:
                            probs.append('identical rule re-announced: version +%s' % d)
                        if present is True and equal is False and d != 1:
                            probs.append('changed rule: version +%s' % d)
                        if present is True and equal is False and not stored:
                            probs.append('changed rule: the new attributes are not stored in %s, so the next '
                                         'comparison is made against stale attributes' % store)
                need = {(True, None), (False, None)} if kind == 'withdraw' else \
                    {(False, None), (True, True), (True, False)}
                if not need <= seen:
                    probs.append('cases distinguished: %s' % sorted(map(str, seen)))
                if probs:
                    rep.bad('R19.a', key, file=f.file, line=f.node.lineno, func=f.qualname,
                            found='; '.join(probs[:2]), expected='version moves exactly when the table changes', key=key)
                else:
                    rep.ok('R19.a', key, file=f.file, line=f.node.lineno, found='%d case(s)' % len(seen))

    # ---------------------------------------------------------------- R19.e
    from .c09 import mask_rule
    mask_rule(prog, rep, 'R19.e')

    # ---------------------------------------------------------------- R19.d
    kinds = set()
    for q in ('yabgp.message.attribute.mpreachnlri.MpReachNLRI.parse',
              'yabgp.message.attribute.mpunreachnlri.MpUnReachNLRI.parse'):
        pf = prog.func(q)
        for n in ast.walk(pf.node):
            if isinstance(n, ast.Call) and src_of(n.func) == 'dict':
                for k in n.keywords:
                    if k.arg == 'afi_safi':
                        kinds.add(type(k.value).__name__)
            if isinstance(n, ast.Dict):
                for k, v in zip(n.keys, n.values):
                    if isinstance(k, ast.Constant) and k.value == 'afi_safi':
                        kinds.add(type(v).__name__)
    if not kinds:
        raise AnalysisError('R19.d: no afi_safi producer found in the MP_REACH / MP_UNREACH decoders')
    nsites = 0
    for meth, want in (('update_receive_verion', kinds), ('update_send_version', {'List'})):
        f = bgp.find_method(meth)
        for n in ast.walk(f.node):
            if isinstance(n, ast.Compare) and len(n.ops) == 1 and isinstance(n.ops[0], ast.Eq) and \
                    src_of(n.left).endswith("['afi_safi']") and isinstance(n.comparators[0], (ast.List, ast.Tuple)):
                nsites += 1
                lit = n.comparators[0]
                code = src_of(n.left).split('[')[1].rstrip(']')
                owner = [i for i in ast.walk(f.node) if isinstance(i, ast.If) and i.test is n]
                effect = any(isinstance(x, (ast.Assign, ast.AugAssign, ast.Delete)) and 'self.' in src_of(x)
                             for i in owner for b in i.body for x in ast.walk(b))
                if not effect:
                    continue        # a branch that only logs: dead or alive makes no difference
                key = 'family-test:%s:%s:%s' % (meth, code, src_of(lit))
                if {type(lit).__name__} == want or (want <= {'List', 'Tuple'} and len(want) == 2 and False):
                    rep.ok('R19.d', key, file=f.file, line=n.lineno)
                else:
                    rep.bad('R19.d', key, file=f.file, line=n.lineno, func=f.qualname,
                            found='%s compares a %s (what %s yields) with the %s literal %s: never equal, the branch '
                                  'that maintains this family\'s table and version is dead' % (
                                      src_of(n), '/'.join(sorted(want)).lower(),
                                      'the MP_REACH/MP_UNREACH decoder' if meth == 'update_receive_verion' else 'the REST JSON',
                                      type(lit).__name__.lower(), src_of(lit)),
                            expected='compare with a %s' % '/'.join(sorted(want)).lower(), key=key)
    rep.floor('R19.d', 'family tests', nsites, 12)
    rep.ok('R19.d', 'producer-kind', found='decoders yield afi_safi as %s' % sorted(kinds), nontrivial=False)

    # ---------------------------------------------------------------- R19.b
    facts = common.env_facts(prog)
    tab = common.get_table(prog, dot_dead=facts['dot_dead'], wire=False)
    for ev in ('TCP_UP', 'TCP_DOWN', 'TCP_CLOSED'):
        nrows = 0
        bad = None
        for state in ORDER:
            for r in tab.get(ev, state):
                nrows += 1
                if not any(a.kind == 'enter' and a.meth == BGP_Q + '.init_rib' for a in r.actions):
                    bad = bad or (state, r)
        key = 'flush:%s' % ev
        if bad:
            rep.bad('R19.b', key, file=PROTO, line=common.row_line(bad[1]), found='in %s a path of %s does not call init_rib' % (bad[0], ev),
                    expected='init_rib() on every path', key=key, path=bad[1].describe())
        elif nrows:
            rep.ok('R19.b', key, file=PROTO, found='%d path(s)' % nrows)
        else:
            rep.undecided('R19.b', key, found='no rows')
    ir = bgp.find_method('init_rib')
    tg = set()
    for n in ast.walk(ir.node):
        if isinstance(n, ast.Assign) and isinstance(n.targets[0], ast.Attribute):
            tg.add(n.targets[0].attr)
    shared = []
    for n in ast.walk(ir.node):
        if isinstance(n, ast.Assign) and isinstance(n.targets[0], ast.Attribute) and \
                n.targets[0].attr in ('adj_rib_in', 'adj_rib_out'):
            v_ = n.value
            # not fresh: a plain alias, a (shallow) copy, or dict(<existing table>)
            alias = isinstance(v_, ast.Name) or isinstance(v_, ast.Attribute)
            copied = isinstance(v_, ast.Call) and (
                (isinstance(v_.func, ast.Attribute) and v_.func.attr in ('copy',)) or
                (src_of(v_.func) in ('dict', 'copy.copy') and len(v_.args) == 1 and isinstance(v_.args[0], (ast.Name, ast.Attribute))))
            if alias or copied:
                shared.append(n)
    if shared:
        rep.bad('R19.b', 'init_rib', file=ir.file, line=shared[0].lineno, func=ir.qualname,
                found='%s: the table is not built afresh (alias / shallow copy), so Adj-RIB-In and Adj-RIB-Out share the '
                      'per-family dictionaries and an update of one shows up in the other' % src_of(shared[0]),
                expected='two independent {family: {}} tables', key='init_rib')
    elif {'adj_rib_in', 'adj_rib_out'} <= tg:
        rep.ok('R19.b', 'init_rib', file=ir.file, line=ir.node.lineno)
    else:
        rep.bad('R19.b', 'init_rib', file=ir.file, line=ir.node.lineno, func=ir.qualname,
                found='init_rib resets %s' % sorted(tg), expected='both RIBs', key='init_rib')

    # ---------------------------------------------------------------- R19.c
    ur = bgp.find_method('_update_received')
    calls = [n for n in ast.walk(ur.node) if isinstance(n, ast.Call) and src_of(n.func) == 'self.update_rib_in_ipv4']
    probs = []
    if len(calls) != 1:
        probs.append('%d calls of update_rib_in_ipv4' % len(calls))
    else:
        c = calls[0]
        guards = [src_of(i.test) for i in ast.walk(ur.node) if isinstance(i, ast.If) and
                  any(c is x for b in i.body for x in ast.walk(b))]
        if not any('CONF.bgp.rib' in g for g in guards):
            probs.append('not guarded by CONF.bgp.rib')
        if not any("'ipv4'" in g for g in guards):
            probs.append('not restricted to the ipv4 family')
        err_if = [i for i in ast.walk(ur.node) if isinstance(i, ast.If) and "result['sub_error']" in src_of(i.test)]
        if not err_if or not any(isinstance(x, ast.Return) for x in err_if[0].body) or err_if[0].lineno > c.lineno:
            probs.append('a malformed UPDATE (sub_error) can reach the RIB update')
    if probs:
        rep.bad('R19.c', 'rib-update-gate', file=ur.file, line=ur.node.lineno, func=ur.qualname,
                found='; '.join(probs), key='rib-update-gate')
    else:
        rep.ok('R19.c', 'rib-update-gate', file=ur.file, line=calls[0].lineno)
    # the REST layer forwards every sent update to the version bookkeeping unconditionally
    uf = prog.func('yabgp.api.utils.update_send_version')
    body = [b for b in uf.node.body if not (isinstance(b, ast.Expr) and isinstance(b.value, ast.Constant))]
    okf = len(body) == 1 and isinstance(body[0], ast.Expr) and isinstance(body[0].value, ast.Call) and \
        common.expand_helpers(uf.module, src_of(body[0].value.func)).endswith('.fsm.protocol.update_send_version') and \
        [src_of(a) for a in body[0].value.args] == uf.params
    if okf:
        rep.ok('R19.c', 'rest-forwards-version-update', file=uf.file, line=uf.node.lineno)
    else:
        rep.bad('R19.c', 'rest-forwards-version-update', file=uf.file, line=uf.node.lineno, func=uf.qualname,
                found='api.utils.update_send_version does not forward every sent update unchanged to '
                      'protocol.update_send_version (conditional / early return / changed arguments)',
                expected='a single unconditional forwarding call', key='rest-forwards-version-update')
    # the Adj-RIB-Out bookkeeping receives the request as it is: the REST helper does not filter or rewrite it
    sp = prog.func('yabgp.api.utils.save_send_ipv4_policies')
    pm = sp.params[0] if sp.params else 'msg'
    rewrites = [n for n in ast.walk(sp.node) if isinstance(n, (ast.Assign, ast.AugAssign, ast.Delete)) and any(
        isinstance(t, ast.Subscript) and isinstance(t.value, ast.Name) and t.value.id == pm
        for t in (n.targets if not isinstance(n, ast.AugAssign) else [n.target]))]
    rcalls = [n for n in ast.walk(sp.node) if isinstance(n, ast.Call) and isinstance(n.func, ast.Attribute)
              and n.func.attr == 'update_rib_out_ipv4']
    if rewrites:
        rep.bad('R19.c', 'rest-rib-out-unfiltered', file=sp.file, line=rewrites[0].lineno, func=sp.qualname,
                found='%s rewrites the request before the Adj-RIB-Out update: entries are kept or dropped by a test '
                      'that differs from the table\'s own membership test' % src_of(rewrites[0])[:70],
                expected='update_rib_out_ipv4(msg) with the request unchanged', key='rest-rib-out-unfiltered')
    elif len(rcalls) == 1 and [src_of(a_) for a_ in rcalls[0].args] == [pm]:
        rep.ok('R19.c', 'rest-rib-out-unfiltered', file=sp.file, line=rcalls[0].lineno)
    else:
        rep.bad('R19.c', 'rest-rib-out-unfiltered', file=sp.file, line=sp.node.lineno, func=sp.qualname,
                found='%d calls of update_rib_out_ipv4, arguments %s' % (
                    len(rcalls), [[src_of(a_) for a_ in c_.args] for c_ in rcalls]),
                expected='update_rib_out_ipv4(msg)', key='rest-rib-out-unfiltered')
    vf = prog.module('yabgp.api.v1').functions.get('send_update_message')
    sends = [n for n in ast.walk(vf.node) if isinstance(n, ast.Call) and src_of(n.func) == 'api_utils.send_update']
    vers = [n for n in ast.walk(vf.node) if isinstance(n, ast.Call) and src_of(n.func) == 'api_utils.update_send_version']
    paired = len(sends) == len(vers) and all(
        any(v.lineno < s_.lineno and s_.lineno - v.lineno <= 2 for v in vers) for s_ in sends)
    if sends and paired:
        rep.ok('R19.c', 'view-updates-version', file=vf.file, line=vf.node.lineno)
    else:
        rep.bad('R19.c', 'view-updates-version', file=vf.file, line=vf.node.lineno, func=vf.qualname,
                found='%d send_update call(s) but %d update_send_version call(s) next to them' % (len(sends), len(vers)),
                key='view-updates-version')
    # the bookkeeping sees the attributes that go on the wire: every write to attr in the view precedes the first
    # bookkeeping call (Adj-RIB-Out comparison, version update)
    book = [n for n in ast.walk(vf.node) if isinstance(n, ast.Call) and src_of(n.func) in (
        'api_utils.save_send_ipv4_policies', 'api_utils.update_send_version')]
    awr = [n for n in ast.walk(vf.node) if isinstance(n, ast.Assign) and any(
        (isinstance(t, ast.Subscript) and src_of(t.value) == 'attr') or (isinstance(t, ast.Name) and t.id == 'attr')
        for t in n.targets)]
    if not book:
        rep.undecided('R19.c', 'view-attr-before-bookkeeping', file=vf.file, line=vf.node.lineno,
                      found='no bookkeeping call in the view')
    else:
        first = min(b.lineno for b in book)
        late = [a_ for a_ in awr if a_.lineno > first]
        if late:
            rep.bad('R19.c', 'view-attr-before-bookkeeping', file=vf.file, line=late[0].lineno, func=vf.qualname,
                    found='%s is executed after the Adj-RIB-Out / version bookkeeping at line %d: the table is compared '
                          'with attributes that differ from what is stored and sent, so an unchanged re-announcement '
                          'counts as a change' % (src_of(late[0])[:60], first),
                    expected='attributes final before the bookkeeping', key='view-attr-before-bookkeeping')
        else:
            rep.ok('R19.c', 'view-attr-before-bookkeeping', file=vf.file, line=first,
                   found='%d attr writes, all before line %d' % (len(awr), first))
    for attr in ('adj_rib_in', 'adj_rib_out', 'receive_version', 'send_version'):
        n = 0
        for fn in prog.all_functions():
            for node in ast.walk(fn.node):
                tgt = None
                if isinstance(node, ast.AugAssign):
                    tgt = node.target
                elif isinstance(node, ast.Assign):
                    tgt = node.targets[0]
                elif isinstance(node, ast.Call) and isinstance(node.func, ast.Attribute) and \
                        node.func.attr in ('pop', 'clear', 'update', 'setdefault'):
                    tgt = node.func.value
                if tgt is None:
                    continue
                base = tgt
                while isinstance(base, ast.Subscript):
                    base = base.value
                if isinstance(base, ast.Attribute) and base.attr == attr:
                    n += 1
                    key = 'writer:%s:%s' % (attr, fn.qualname)
                    if fn.cls is bgp:
                        if not any(i.key == key for i in rep.instances):
                            rep.ok('R19.c', key, file=fn.file, line=node.lineno, nontrivial=False)
                    else:
                        rep.bad('R19.c', key, file=fn.file, line=node.lineno, func=fn.qualname,
                                found=src_of(node)[:100], expected='written only by BGP methods', key=key)
        rep.floor('R19.c', '%s writers' % attr, n, 2)


def cval_ret(v):
    return v.value if isinstance(v, Const) else (v.desc() if v is not None else None)
