"""C09 - decoding agrees with an independent RFC encoder (structural part)."""
import ast

from ..front import AnalysisError, NotConst, src_of
from ..values import Const, Sym, Opaque, Obj
from .. import codec
from . import common

UPD = 'yabgp.message.update.Update'
A = 'yabgp.message.attribute.'

# RFC acceptance sets of the value length (None = any multiple of k)
ACCEPT = [
    ('ORIGIN', A + 'origin.Origin.parse', {}, {1}),
    ('NEXT_HOP', A + 'nexthop.NextHop.parse', {}, {4}),
    ('MULTI_EXIT_DISC', A + 'med.MED.parse', {}, {4}),
    ('LOCAL_PREF', A + 'localpref.LocalPreference.parse', {}, {4}),
    ('ATOMIC_AGGREGATE', A + 'atomicaggregate.AtomicAggregate.parse', {}, {0}),
    ('AGGREGATOR(2-octet AS)', A + 'aggregator.Aggregator.parse', {'asn4': False}, {6}),
    ('AGGREGATOR(4-octet AS)', A + 'aggregator.Aggregator.parse', {'asn4': True}, {8}),
    ('ORIGINATOR_ID', A + 'originatorid.OriginatorID.parse', {}, {4}),
    ('CLUSTER_LIST', A + 'clusterlist.ClusterList.parse', {}, ('mult', 4)),
    ('COMMUNITIES', A + 'community.Community.parse', {}, ('mult', 4)),
    ('LARGE_COMMUNITY', A + 'largecommunity.LargeCommunity.parse', {}, ('mult', 12)),
    ('EXTENDED_COMMUNITIES', A + 'extcommunity.ExtCommunity.parse', {}, ('mult', 8)),
]

# type code -> (class name, asn4 argument: 'param' | True | None)
DISPATCH = {1: ('Origin', None), 2: ('ASPath', 'param'), 3: ('NextHop', None), 4: ('MED', None),
            5: ('LocalPreference', None), 6: ('AtomicAggregate', None), 7: ('Aggregator', 'param'),
            8: ('Community', None), 9: ('OriginatorID', None), 10: ('ClusterList', None),
            14: ('MpReachNLRI', None), 15: ('MpUnReachNLRI', None), 16: ('ExtCommunity', None),
            17: ('ASPath', True), 18: ('Aggregator', True), 22: ('PMSITunnel', None),
            32: ('LargeCommunity', None), 40: ('BGPPrefixSID', None), 29: ('LinkState', None)}


def check(prog, rep, tier):
    rep.rule('R09.g', 'the ADD-PATH switch of MP_REACH / MP_UNREACH is looked up by family name: the <AFI, SAFI> -> name table '
                      'is the inverse of the name -> <AFI, SAFI> table (rule shared with C14 R14.e)')
    from .c14 import family_names
    family_names(prog, rep, 'R09.g')
    rep.rule('R09.a', 'extended length honoured generically: parse_attributes selects the 1- or 2-octet length '
                      'from the flags before and independent of the type dispatch; no per-type decoder sees the flags')
    rep.rule('R09.b', 'trailing-bit mask: the mask applied to the last prefix octet for remainder r = 1..7 is the '
                      'top-r-bits mask')
    rep.rule('R09.c', 'type dispatch table of parse_attributes equals the oracle (incl. AS4_PATH / AS4_AGGREGATOR '
                      'decoded in 4-octet mode, unknown types kept as hex)')
    rep.rule('R09.d', 'error half: the set of value lengths each fixed-length attribute decoder accepts is exactly '
                      'the RFC set; ORIGIN accepts exactly {0,1,2}; prefix length > 32 and bad AS_PATH segment '
                      'types are rejected')
    rep.rule('R09.e', 'add-path identifiers: with add-path on, every decoded prefix carries the 4-octet identifier '
                      'that was read for it, for every identifier value (0 is legal); with add-path off none does')
    rep.rule('R09.f', 'unsigned wire: no decoder reads a field with a signed struct code (a length or value with its top '
                      'bit set would come out negative)')
    rep.assumptions += ['agreement on concrete values with a reference encoder is not enumerated']
    pa = prog.func(UPD + '.parse_attributes')

    # ---------------------------------------------------------------- R09.a
    loops = [n for n in ast.walk(pa.node) if isinstance(n, ast.While)]
    if not loops:
        raise AnalysisError('parse_attributes has no loop')
    body = loops[0].body
    ext_if = None
    chain_at = None
    for i, st in enumerate(body):
        if isinstance(st, ast.If) and 'flags' in src_of(st.test) and ext_if is None and \
                'type_code' not in src_of(st.test):
            ext_if = (i, st)
        if isinstance(st, ast.If) and 'type_code' in src_of(st.test) and chain_at is None:
            chain_at = i
    probs = []
    if ext_if is None:
        probs.append('no test of the flags octet selects the length width')
    else:
        i, st = ext_if
        t = st.test
        ok = isinstance(t, ast.BinOp) and isinstance(t.op, ast.BitAnd) and \
            prog.try_fold(t.right, pa.module, pa.cls) == 0x10
        if not ok:
            probs.append('length width test is %s, expected flags & 0x10' % src_of(t))
        txt_t = ' '.join(src_of(s) for s in st.body)
        txt_f = ' '.join(src_of(s) for s in st.orelse)
        if "'!H'" not in txt_t or 'postfix[4:4 + attr_len]' not in txt_t.replace('  ', ' '):
            probs.append('extended branch does not read a 2-octet length and a value at offset 4')
        if 'postfix[3:3 + attr_len]' not in txt_f:
            probs.append('standard branch does not read the value at offset 3')
        if chain_at is not None and chain_at < i:
            probs.append('type dispatch precedes the length selection')
    for n in ast.walk(pa.node):
        if isinstance(n, ast.Call) and isinstance(n.func, ast.Attribute) and n.func.attr in ('parse', 'unpack') \
                and src_of(n.func.value) != 'struct':
            if any('flags' in src_of(a) for a in list(n.args) + [k.value for k in n.keywords]):
                probs.append('decoder %s receives the flags octet' % src_of(n.func))
    if probs:
        rep.bad('R09.a', 'parse_attributes:length-width', file=pa.file, line=(ext_if[1].lineno if ext_if else pa.node.lineno),
                func=pa.qualname, found='; '.join(probs), key='parse_attributes:length-width')
    else:
        rep.ok('R09.a', 'parse_attributes:length-width', file=pa.file, line=ext_if[1].lineno)

    # ---------------------------------------------------------------- R09.b
    mask_rule(prog, rep, 'R09.b')

    addpath_decoders(prog, rep)

    # ---------------------------------------------------------------- R09.f
    common.report_signed_formats(prog, rep, 'R09.f', lambda fn: fn.module.name.startswith('yabgp.message')
                                 and (fn.name.startswith(('parse', 'unpack'))), 100)

    # ---------------------------------------------------------------- R09.c
    table = dispatch_table(prog, pa)
    for code, (cls, asn4) in sorted(DISPATCH.items()):
        key = 'dispatch:%d' % code
        got = table.get(code)
        if got is None:
            rep.bad('R09.c', key, file=pa.file, line=pa.node.lineno, func=pa.qualname,
                    found='type %d has no decoder branch (falls to the hex fallback)' % code,
                    expected=cls, key=key)
            continue
        gcls, gasn4, line = got
        if gcls != cls:
            rep.bad('R09.c', key, file=pa.file, line=line, func=pa.qualname,
                    found='type %d decoded by %s' % (code, gcls), expected=cls, key=key)
        elif asn4 == 'param' and gasn4 != 'asn4':
            rep.bad('R09.c', key, file=pa.file, line=line, func=pa.qualname,
                    found='type %d: asn4 argument is %s' % (code, gasn4), expected='the session asn4 flag', key=key)
        elif asn4 is True and gasn4 != 'True':
            rep.bad('R09.c', key, file=pa.file, line=line, func=pa.qualname,
                    found='type %d: asn4 argument is %s' % (code, gasn4), expected='True (always 4-octet)', key=key)
        else:
            rep.ok('R09.c', key, file=pa.file, line=line, found='%s%s' % (gcls, '' if gasn4 is None else ' asn4=%s' % gasn4))
    extra = sorted(k for k in set(table) - set(DISPATCH) if k != 'fallback')
    if extra:
        rep.note('parse_attributes decodes additional type codes %s (not in the oracle)' % extra)
    if table.get('fallback'):
        rep.ok('R09.c', 'dispatch:unknown', file=pa.file, line=table['fallback'], found='hex fallback')
    else:
        rep.bad('R09.c', 'dispatch:unknown', file=pa.file, line=pa.node.lineno, func=pa.qualname,
                found='unknown attribute types are not kept as hex', key='dispatch:unknown')

    # ---------------------------------------------------------------- R09.d
    for name, qual, kw, want in ACCEPT:
        f = prog.func(qual)
        acc = []
        for L in range(0, 41):
            _f, outs = codec.run(prog, qual, [codec.fixbytes(L)], {k: Const(v) for k, v in kw.items()},
                                 unroll=14, budget=30000, merge=True)
            if any(k == 'val' for k, v, s in outs):
                acc.append(L)
        if isinstance(want, tuple):
            exp = [L for L in range(0, 41) if L % want[1] == 0]
            ok = acc == exp or acc == exp[1:]
            wtxt = 'multiples of %d' % want[1]
        else:
            exp = sorted(want)
            ok = acc == exp
            wtxt = str(exp)
        key = 'accept:%s' % name
        if ok:
            rep.ok('R09.d', key, file=f.file, line=f.node.lineno, found='accepted lengths (0..40): %s' % acc[:12])
        else:
            wrong = sorted(set(acc) ^ set(exp))
            rep.bad('R09.d', key, file=f.file, line=f.node.lineno, func=qual,
                    found='accepts value lengths %s%s' % (acc[:12], ' ...' if len(acc) > 12 else ''),
                    expected=wtxt + ' (differs at %s)' % wrong[:6], key=key)
    # ORIGIN value set
    qual = A + 'origin.Origin.parse'
    f, outs = codec.run(prog, qual, [codec.fixbytes(1)], {})
    okvals = set()
    for k, v, s in outs:
        if k == 'val' and isinstance(v, Sym):
            lo, hi, neq = s.interval(v.name)
            if hi - lo < 300:
                okvals |= set(x for x in range(int(lo), int(hi) + 1) if x not in neq)
            else:
                okvals.add('unbounded')
        elif k == 'val' and isinstance(v, Const):
            okvals.add(v.value)
    if okvals == {0, 1, 2}:
        rep.ok('R09.d', 'origin-values', file=f.file, line=f.node.lineno, found='{0,1,2}')
    else:
        rep.bad('R09.d', 'origin-values', file=f.file, line=f.node.lineno, func=qual,
                found='ORIGIN values accepted: %s' % sorted(map(str, okvals))[:8], expected='{0,1,2}', key='origin-values')
    # prefix length > 32: finite partition of the length octet 33..255 for both IPv4 prefix-list decoders
    from ..values import BytesV
    for qual in (UPD + '.parse_prefix_list', 'yabgp.message.attribute.nlri.ipv4_unicast.IPv4Unicast.parse'):
        f = prog.func(qual)
        accepted = []
        other = []
        for m in range(33, 256):
            data = BytesV([('lit', bytes([m])), ('opq', Opaque('rest', 'bytes'), None)])
            try:
                _f, outs = codec.run(prog, qual, [data], {}, may_raise=False)
            except AnalysisError as e:
                other.append((m, str(e)))
                continue
            for k, v, st in outs:
                if k == 'raise':
                    cls_, sub = codec.exc_info(v, st)
                    if cls_ != 'UpdateMessageError':
                        other.append((m, 'raises %s' % cls_))
                else:
                    accepted.append(m)
                    break
        key = 'prefix-len-limit:%s' % f.qualname
        if accepted:
            rep.bad('R09.d', key, file=f.file, line=f.node.lineno, func=qual,
                    found='a prefix length octet of %s is not rejected: a value such as a.b.c.d/%d is returned instead '
                          'of an error' % (_ranges(accepted), accepted[0]),
                    expected='UpdateMessageError for every length 33..255', key=key)
        elif other:
            rep.undecided('R09.d', key, file=f.file, line=f.node.lineno, found='%s: %s' % other[0])
        else:
            rep.ok('R09.d', key, file=f.file, line=f.node.lineno, found='lengths 33..255 rejected')
    # AS_PATH segment types
    f = prog.func(A + 'aspath.ASPath.parse')
    segs = None
    for n in ast.walk(f.node):
        if isinstance(n, ast.Compare) and isinstance(n.ops[0], ast.NotIn) and 'seg_type' in src_of(n.left):
            segs = (prog.try_fold(n.comparators[0], f.module, f.cls), n.lineno)
    if segs and set(segs[0] or []) == {1, 2, 3, 4}:
        rep.ok('R09.d', 'aspath-segment-types', file=f.file, line=segs[1])
    else:
        rep.bad('R09.d', 'aspath-segment-types', file=f.file, line=f.node.lineno, func=f.qualname,
                found='segment type check: %s' % (segs,), expected='reject types outside {1,2,3,4}',
                key='aspath-segment-types')


def mask_rule(prog, rep, rule):
    for qual in (UPD + '.parse_prefix_list', 'yabgp.message.attribute.nlri.ipv4_unicast.IPv4Unicast.parse'):
        f = prog.func(qual)
        found = False
        for n in ast.walk(f.node):
            if isinstance(n, ast.AugAssign) and isinstance(n.op, ast.BitAnd):
                from .common import unalias as _unalias
                try:
                    nval = ast.parse(_unalias(f.node, n.value), mode='eval').body    # shift amount held in a local
                except SyntaxError:
                    nval = n.value
                names = [x.id for x in ast.walk(nval) if isinstance(x, ast.Name)
                         and x.id not in f.module.assigns and prog.resolve_name(x.id, f.module) is None]
                if not names:
                    continue
                found = True
                var = names[0]
                bad = None
                for r in range(1, 8):
                    try:
                        m = prog.fold(nval, f.module, f.cls, {var: r}) & 0xFF
                    except NotConst:
                        bad = (r, 'mask expression not foldable')
                        break
                    if m != (0xFF << (8 - r)) & 0xFF:
                        bad = (r, 'mask 0x%02x, expected 0x%02x' % (m, (0xFF << (8 - r)) & 0xFF))
                        break
                # the masked element must be the last *received* octet: between the creation of the
                # list and the mask nothing may grow it (padding comes afterwards)
                lst = src_of(n.target.value) if isinstance(n.target, ast.Subscript) else None
                if bad is None and lst is not None:
                    grows = []
                    for st2 in ast.walk(f.node):
                        if getattr(st2, 'lineno', 10 ** 9) >= n.lineno:
                            continue
                        if isinstance(st2, ast.Assign) and any(src_of(t) == lst for t in st2.targets) and \
                                any(isinstance(b, ast.BinOp) and isinstance(b.op, ast.Add) and
                                    lst in (src_of(b.left), src_of(b.right)) for b in ast.walk(st2.value)):
                            grows.append(st2)
                        if isinstance(st2, ast.AugAssign) and src_of(st2.target) == lst and isinstance(st2.op, ast.Add):
                            grows.append(st2)
                        if isinstance(st2, ast.Call) and isinstance(st2.func, ast.Attribute) and \
                                src_of(st2.func.value) == lst and st2.func.attr in ('append', 'extend', 'insert'):
                            grows.append(st2)
                    # only statements inside the same loop body count
                    loop = [w for w in ast.walk(f.node) if isinstance(w, ast.While)
                            and any(x is n for x in ast.walk(w))]
                    grows = [g for g in grows if loop and any(x is g for x in ast.walk(loop[0]))]
                    if grows:
                        bad = (0, 'the octet list is padded (%s) before the mask is applied, so the mask hits a '
                                  'padding octet instead of the last received one' % src_of(grows[0])[:60])
                key = 'mask:%s' % f.qualname
                if bad:
                    rep.bad(rule, key, file=f.file, line=n.lineno, func=f.qualname,
                            found='remainder %d: %s (%s)' % (bad[0], bad[1], src_of(n)), key=key)
                else:
                    rep.ok(rule, key, file=f.file, line=n.lineno, found=src_of(n))
        if not found:
            rep.bad(rule, 'mask:%s' % f.qualname, file=f.file, line=f.node.lineno, func=f.qualname,
                    found='no masking of the trailing bits of the last prefix octet', key='mask:%s' % f.qualname)



ADDPATH_DECODERS = [
    (UPD + '.parse_prefix_list', None),
    ('yabgp.message.attribute.nlri.ipv4_unicast.IPv4Unicast.parse', None),
    ('yabgp.message.attribute.nlri.ipv6_unicast.IPv6Unicast.parse', None),
    ('yabgp.message.attribute.nlri.labeled_unicast.LabeledUnicast.parse',
     'yabgp.message.attribute.nlri.labeled_unicast.ipv4.IPv4LabeledUnicast'),
]


def addpath_decoders(prog, rep):
    from ..values import BytesV
    for qual, bind in ADDPATH_DECODERS:
        try:
            f = prog.func(qual)
            bcls = prog.cls(bind) if bind else None
        except AnalysisError:
            rep.undecided('R09.e', 'addpath:' + qual, found='decoder not found')
            continue
        for on in (True, False):
            key = 'addpath=%s:%s' % (on, qual.split('yabgp.message.')[-1])
            try:
                _f, outs = codec.run(prog, qual, [BytesV([('opq', Opaque('nlri_data', 'bytes'))]), Const(on)], {},
                                     bind=bcls, may_raise=False, unique=True)
            except AnalysisError as e:
                rep.undecided('R09.e', key, file=f.file, line=f.node.lineno, found=str(e))
                continue
            bad = None
            nel = 0
            for k, v, st in outs:
                if k != 'val' or not isinstance(v, Obj) or v.oid not in st.heap:
                    continue
                for it in st.heap[v.oid].items:
                    nel += 1
                    h = st.heap.get(it.oid) if isinstance(it, Obj) else None
                    has = h is not None and h.kind == 'dict' and 'path_id' in h.items
                    guards = ' & '.join(('%s' if b else 'not %s') % t for t, b, l, q in st.path[-4:])
                    if on and not has:
                        bad = bad or 'a prefix read after a path identifier is returned without it (%s) on the ' \
                                     'path: %s' % (it.desc() if hasattr(it, 'desc') else it, guards)
                    elif on:
                        pv = h.items['path_id']
                        org = st.syminfo.get(pv.name) if isinstance(pv, Sym) else None
                        if not (isinstance(pv, Sym) and org and 'I' in str(org[0])):
                            bad = bad or 'path_id of the decoded prefix is %s, not the identifier read from ' \
                                         'the wire' % pv.desc()
                    elif has:
                        bad = bad or 'add-path off, yet the decoded prefix has a path_id'
            if bad:
                rep.bad('R09.e', key, file=f.file, line=f.node.lineno, func=qual, found=bad, key=key)
            elif nel:
                rep.ok('R09.e', key, file=f.file, line=f.node.lineno, found='%d decoded element(s) on all paths' % nel)
            else:
                rep.undecided('R09.e', key, file=f.file, line=f.node.lineno, found='no path decodes a prefix')


def _ranges(xs):
    xs = sorted(set(xs))
    out = []
    i = 0
    while i < len(xs):
        j = i
        while j + 1 < len(xs) and xs[j + 1] == xs[j] + 1:
            j += 1
        out.append('%d' % xs[i] if i == j else '%d..%d' % (xs[i], xs[j]))
        i = j + 1
    return ', '.join(out)


def dispatch_table(prog, pa, methods=('parse', 'unpack')):
    """type code -> (decoder class name, asn4 argument text, line) from the if/elif chain."""
    out = {}
    # table dispatch: `if type_code in TABLE: TABLE[type_code].parse(value=...)` with TABLE = {code: Class}
    for n in ast.walk(pa.node):
        if isinstance(n, ast.If) and isinstance(n.test, ast.Compare) and src_of(n.test.left) == 'type_code' \
                and isinstance(n.test.ops[0], ast.In) and isinstance(n.test.comparators[0], ast.Name):
            tname = n.test.comparators[0].id
            texpr = pa.module.assigns.get(tname)
            if texpr is None:
                for a_ in ast.walk(pa.node):
                    if isinstance(a_, ast.Assign) and any(isinstance(t_, ast.Name) and t_.id == tname for t_ in a_.targets):
                        texpr = a_.value
            uses = [c for c in ast.walk(ast.Module(body=n.body, type_ignores=[]))
                    if isinstance(c, ast.Call) and isinstance(c.func, ast.Attribute) and c.func.attr in methods
                    and isinstance(c.func.value, ast.Subscript) and src_of(c.func.value.value) == tname]
            if isinstance(texpr, ast.Dict) and uses:
                for k_, v_ in zip(texpr.keys, texpr.values):
                    code = prog.try_fold(k_, pa.module, pa.cls)
                    if code is None:
                        continue
                    asn4 = None
                    for kw in uses[0].keywords:
                        if kw.arg == 'asn4':
                            asn4 = src_of(kw.value)
                    out.setdefault(code, (src_of(v_), asn4, n.lineno))
    for n in ast.walk(pa.node):
        if isinstance(n, ast.If) and isinstance(n.test, ast.Compare) and src_of(n.test.left) == 'type_code' \
                and isinstance(n.test.ops[0], ast.Eq):
            code = prog.try_fold(n.test.comparators[0], pa.module, pa.cls)
            if code is None:
                continue
            for c in ast.walk(ast.Module(body=n.body, type_ignores=[])):
                if isinstance(c, ast.Call) and isinstance(c.func, ast.Attribute) and c.func.attr in methods:
                    cls = src_of(c.func.value)
                    asn4 = None
                    for k in c.keywords:
                        if k.arg == 'asn4':
                            asn4 = src_of(k.value)
                    if code not in out:
                        out[code] = (cls, asn4, n.lineno)
            if not n.orelse:
                continue
            last = n.orelse
            if len(last) == 1 and not isinstance(last[0], ast.If):
                pass
            if all(not isinstance(x, ast.If) for x in last):
                txt = ' '.join(src_of(x) for x in last)
                if 'b2a_hex' in txt or 'hexlify' in txt:
                    out['fallback'] = last[0].lineno
    return out
