"""C03 - hold and keepalive timers keep the negotiated contract (structural part)."""
import ast

from ..front import AnalysisError, NotConst, src_of
from ..values import Const, Sym, INF
from ..table import ORDER
from ..session import cval
from . import common

FSM_FILE = 'yabgp/core/fsm.py'


def hold_iv(r):
    """Interval of the negotiated hold time on this path: of fsm.hold_time as it is at the
    end of the path (a pre-existing symbol or the freshly negotiated one)."""
    v = r.field('fsm', 'hold_time')
    if isinstance(v, Const) and isinstance(v.value, (int, float)):
        return (v.value, v.value)
    if isinstance(v, Sym):
        lo, hi, neq = r.st.interval(v.name)
        return (lo, hi)
    return None


def period_divisor(ka, h):
    """Largest k such that the structure of the value `ka` guarantees ka <= h / k for every accepted hold
    time h >= 3; None when no bound follows.  h / c and h // c divide, int() and min() keep the bound, max()
    needs every operand bounded, and a constant c is below h / k for all h >= 3 exactly when c <= 3 / k."""
    INF_ = float('inf')

    def go(v):
        if h is not None and hasattr(v, 'desc') and v.desc() == h.desc():
            return 1.0
        if isinstance(v, Const) and isinstance(v.value, (int, float)) and not isinstance(v.value, bool):
            return INF_ if v.value <= 0 else 3.0 / v.value
        if isinstance(v, Sym) and v.origin:
            op, args = v.origin[0], v.origin[1]
            if op in ('/', '//') and len(args) == 2 and isinstance(args[1], Const) and \
                    isinstance(args[1].value, (int, float)) and args[1].value > 0:
                k = go(args[0])
                return None if k is None else k * args[1].value
            if op == '*' and len(args) == 2:
                for a, b in ((args[0], args[1]), (args[1], args[0])):
                    if isinstance(b, Const) and isinstance(b.value, (int, float)) and b.value > 0:
                        k = go(a)
                        return None if k is None else k / b.value
                return None
            if op == 'min':
                ks = [k for k in (go(a) for a in args) if k is not None]
                return max(ks) if ks else None
            if op == 'max':
                ks = [go(a) for a in args]
                return None if any(k is None for k in ks) else min(ks)
            if op in ('int', 'floor', 'opaque') and len(args) == 1:
                return go(args[0])
        return None
    return go(ka)


def check(prog, rep, tier):
    rep.rule('R03.a', 'keepalive period: the value an accepted OPEN leaves in keep_alive_time is bounded by '
                      'hold_time / 3 for every accepted hold time (structural bound through / // int min max), the hold '
                      'time is min(configured, proposed), no event of a running session changes either value, and '
                      'keep_alive_timer is always re-armed with keep_alive_time')
    rep.rule('R03.b', 'keepalive timer expiry in OpenConfirm/Established sends KEEPALIVE and re-arms the '
                      'timer exactly when H > 0')
    rep.rule('R03.c', 'KEEPALIVE in OpenConfirm/Established and UPDATE in Established restart the hold '
                      'timer with the negotiated hold time when H > 0')
    rep.rule('R03.d', 'zero hold time: no hold/keepalive timer is armed with H = 0 on any path; accepting an '
                      'OPEN with H = 0 leaves no session timer armed')
    rep.rule('R03.e', 'hold timer expiry in OpenSent/OpenConfirm/Established sends NOTIFICATION (4,0), closes, Idle')
    rep.rule('R03.f', 'every path that sends OPEN arms the hold timer with the large hold time (240 s)')
    rep.rule('R03.h', 'a running session stays up: connectionLost of an earlier, replaced connection leaves the state, the '
                      'timers and the tracked protocol of the live session alone (rule shared with C12 R12.e)')
    rep.rule('R03.g', 'BGPTimer.reset re-arms through reactor.callLater when the previous call is absent, '
                      'called or cancelled; cancel cancels the delayed call')
    rep.assumptions += ['hold times are non-negative integers (OPEN field is unsigned 16 bit, configuration is validated)',
                        'emission times and same-instant orderings are not decided (no clock in a static analysis)']
    facts = common.env_facts(prog)
    tab = common.get_table(prog, dot_dead=facts['dot_dead'])
    rep.analysed['table_rows'] = sum(len(v) for v in tab.rows.values())

    from .c12 import stale_lost_rule
    stale_lost_rule(tab, rep, 'R03.h')

    # ---------------------------------------------------------------- R03.a
    writers = set()
    for f, tgt, val, st in common.attr_stores(prog, 'keep_alive_time'):
        writers.add(f.qualname)
        if f.name == '__init__':
            rep.ok('R03.a', 'writer:%s' % f.qualname, file=f.file, line=st.lineno, found=src_of(st))
            continue
        # any other writer: what matters is what the negotiation leaves (negotiated-period, below) and that no
        # event of a running session changes it (session-constants, below); a write on the way out of a session
        # (error close restoring the configured value) is harmless
        rep.ok('R03.a', 'writer:%s' % f.qualname, file=f.file, line=st.lineno, found=src_of(st), nontrivial=False)
    n = 0
    for state in ORDER:
        for r in tab.get('WIRE', state):
            if r.wire['cls'] == 'OPEN' and r.final == 'OpenConfirm' and r.pre == 'OpenSent':
                n += 1
                ka = r.field('fsm', 'keep_alive_time')
                h = r.field('fsm', 'hold_time')
                kdiv = period_divisor(ka, h)
                ok = kdiv is not None and kdiv >= 3
                if not ok:
                    rep.bad('R03.a', 'negotiated-period@%s' % state, file='yabgp/core/protocol.py',
                            line=common.row_line(r), func='BGP.negotiate_hold_time',
                            found='after accepting OPEN keep_alive_time = %s, hold_time = %s' % (
                                cval(ka), cval(h)), expected='keep_alive_time <= hold_time / 3 for every accepted hold time '
                            '(hold_time / k or // k with k >= 3, possibly under int() / max(c <= 1, .) / min(.))',
                            key='negotiated-period', path=r.describe())
                    break
                hv = h.origin if isinstance(h, Sym) else None
                if not (hv and hv[0] == 'min' and
                        any(a.desc().startswith(('CONF.', 'cfg.', 'oslo_config')) for a in hv[1]) and
                        any(r.st.syminfo.get(a.desc(), (None,))[0] == '!BHHIB' for a in hv[1])):
                    rep.bad('R03.a', 'negotiated-hold@%s' % state, file='yabgp/core/protocol.py',
                            line=common.row_line(r), func='BGP.negotiate_hold_time',
                            found='negotiated hold time = %s' % cval(h),
                            expected='min(configured hold time, hold time proposed in this OPEN)', key='negotiated-hold', path=r.describe())
                    break
    if n:
        if not any(i.rule == 'R03.a' and i.verdict == 'violation' and i.key.startswith('negotiated')
                   for i in rep.instances):
            rep.ok('R03.a', 'negotiated-period', file='yabgp/core/protocol.py',
                   found='%d accepting paths: hold = min(configured, proposed), keepalive = hold / k, k >= 3' % n)
    else:
        rep.undecided('R03.a', 'negotiated-period', found='no accepting OPEN path in the table')
    # no event of a running session changes the two negotiated values
    nsc = 0
    bad_sc = set()
    for (ev, state), rows in sorted(tab.rows.items()):
        if state not in ('OpenConfirm', 'Established'):
            continue
        for r in rows:
            if r.kind == 'raise' or r.final not in ('OpenConfirm', 'Established'):
                continue
            if ev == 'WIRE' and r.wire['cls'] == 'OPEN':
                continue        # a further OPEN in OpenConfirm negotiates again (collision detection is a TODO of the
                #                 FSM; the C01 profile leaves that cell open) - which H counts then is not for C03
            nsc += 1
            for fld in ('hold_time', 'keep_alive_time'):
                v = r.field('fsm', fld)
                if not (isinstance(v, Sym) and v.name == 'fsm.%s' % fld):
                    key = 'session-constants:%s@%s@%s' % (fld, ev if ev != 'WIRE' else 'WIRE:' + r.wire['cls'], state)
                    if key not in bad_sc:
                        bad_sc.add(key)
                        rep.bad('R03.a', key, file=common.row_file(r), line=common.row_line(r), func=common.row_func(r),
                                found='%s of the running session becomes %s' % (fld, cval(v)),
                                expected='the negotiated values stay as negotiated while the session lasts', key=key,
                                path=r.describe())
    if not bad_sc:
        rep.ok('R03.a', 'session-constants', found='%d continuing paths leave hold_time and keep_alive_time alone' % nsc)
    rep.floor('R03.a', 'continuing session paths', nsc, 60)
    # every keep_alive reset uses the current keep_alive_time; every hold reset the hold time / 240
    for (ev, state), rows in sorted(tab.rows.items()):
        for r in rows:
            for e in r.events:
                if e[0] == 'timer' and e[2] == 'reset' and e[1] == 'keep_alive':
                    arg = e[3][0] if e[3] else None
                    cur = r.field('fsm', 'keep_alive_time')
                    key = 'ka-arg:%s@%s' % (ev, state)
                    if arg is None or cur is None or arg.desc() != cur.desc():
                        rep.bad('R03.a', key, file=FSM_FILE, line=e[4], found='keep_alive_timer.reset(%s)' % cval(arg),
                                expected='reset(self.keep_alive_time)', key=key, path=r.describe())
                    elif not any(i.key == key for i in rep.instances):
                        rep.ok('R03.a', key, file=FSM_FILE, line=e[4], key=key)

    # ---------------------------------------------------------------- R03.b / R03.c / R03.d
    def timer_rule(rule, ev, state, timer, sends):
        rows = [r for r in tab.get(ev, state) if r.kind != 'raise']
        if not rows:
            rep.undecided(rule, '%s@%s' % (ev, state), found='no row')
            return
        key = '%s@%s' % (ev, state)
        for r in rows:
            iv = hold_iv(r)
            resets = [t for t in r.timer_ops() if t[0] == timer and t[1] == 'reset']
            kinds = [x[0] for x in r.sends()]
            if kinds != sends:
                rep.bad(rule, key, file=FSM_FILE, line=common.row_line(r), func=common.row_func(r),
                        found='sends %s' % kinds, expected='sends %s' % sends, key=key, path=r.describe())
                return
            if iv is None:
                rep.undecided(rule, key, found='hold time not symbolic')
                return
            if resets and timer == 'hold':
                cur_h = r.field('fsm', 'hold_time')
                wrong = [t for t in resets if t[2] and cur_h is not None and t[2][0] != cur_h.desc()]
                if wrong:
                    rep.bad(rule, key, file=FSM_FILE, line=common.row_line(r), func=common.row_func(r),
                            found='hold timer restarted with %s instead of the negotiated hold time' % wrong[0][2][0],
                            expected='hold_timer.reset(self.hold_time)', key=key, path=r.describe())
                    return
            if iv[1] >= 1 and not resets:
                rep.bad(rule, key, file=FSM_FILE, line=common.row_line(r), func=common.row_func(r),
                        found='with H > 0 the %s timer is not re-armed' % timer,
                        expected='%s_timer.reset(...)' % timer, key=key, path=r.describe())
                return
        rep.ok(rule, key, file=FSM_FILE, line=common.row_line(rows[0]), found='%d path(s)' % len(rows),
               path=rows[0].describe())

    for state in ('OpenConfirm', 'Established'):
        timer_rule('R03.b', 'T_keep_alive', state, 'keep_alive', ['keepalive'])
        timer_rule('R03.c', 'KEEPALIVE', state, 'hold', [])
    timer_rule('R03.c', 'UPDATE', 'Established', 'hold', [])

    # wire level: every received KEEPALIVE / UPDATE that is counted or reported in Established restarts
    # the hold timer, whatever the decoder thought of its content (a tolerated malformed UPDATE included)
    from .. import profile as P
    seenw = {}
    for r in tab.get('WIRE', 'Established'):
        cls = r.wire['cls']
        if cls not in ('UPDATE', 'KEEPALIVE') or r.kind == 'raise' or r.final != 'Established':
            continue
        if not (r.handler_calls() or any(e[0] == 'fsm' for e in r.events)):
            continue            # decoder raised: nothing delivered (C10/C18)
        kind = 'malformed' if 'on_update_error' in r.handler_calls() else 'ok'
        name = 'wire:%s(%s)@Established' % (cls, kind)
        probs = P.RESTART_HOLD(r)
        if probs:
            if seenw.get(name) != 'bad':
                seenw[name] = 'bad'
                rep.bad('R03.c', name, file=common.row_file(r), line=common.row_line(r), func=common.row_func(r),
                        found='a received %s (%s) is delivered but %s' % (cls, kind, probs[0]),
                        expected='fsm event that restarts the hold timer', key=name, path=r.describe())
        elif name not in seenw:
            seenw[name] = 'ok'
            rep.ok('R03.c', name, file='yabgp/core/protocol.py', line=common.row_line(r))

    # the hold time we advertise is the configured one - the same operand negotiate_hold_time takes the minimum with;
    # advertising anything else makes the two ends compute different hold times
    so = prog.func('yabgp.core.protocol.BGP.send_open')
    octor = [n for n in ast.walk(so.node) if isinstance(n, ast.Call) and src_of(n.func).split('.')[-1] == 'Open']
    hk = None
    for c in octor:
        for k in c.keywords:
            if k.arg == 'hold_time':
                hk = k.value
    if hk is None:
        rep.undecided('R03.a', 'advertised-hold', file=so.file, line=so.node.lineno,
                      found='no Open(hold_time=...) constructor call in send_open')
    else:
        txt = common.unalias(so.node, hk)
        if txt.startswith(('CONF.', 'cfg.CONF.')):
            rep.ok('R03.a', 'advertised-hold', file=so.file, line=hk.lineno, found=txt)
        else:
            rep.bad('R03.a', 'advertised-hold', file=so.file, line=hk.lineno, func=so.qualname,
                    found='the OPEN advertises hold_time = %s, not the configured value: after a session that negotiated '
                          'less, the peer is told the old value while the timers run from the configuration' % txt,
                    expected='CONF.time.hold_time', key='advertised-hold')

    # receiving a message never touches the keepalive timer: our KEEPALIVEs go out every H/3 counted from the
    # previous one, a restart on reception stretches the gap
    seenk = {}
    for ev in ('KEEPALIVE', 'UPDATE'):
        for state in ('OpenConfirm', 'Established'):
            for r in tab.get(ev, state):
                if r.kind == 'raise' or r.final not in ('OpenConfirm', 'Established'):
                    continue            # an error close stops every timer
                name = 'keepalive-timer-untouched:%s@%s' % (ev, state)
                ops = [t for t in r.timer_ops() if t[0] == 'keep_alive' and t[1] == 'reset']
                if ops:
                    if seenk.get(name) != 'bad':
                        seenk[name] = 'bad'
                        rep.bad('R03.c', name, file=common.row_file(r), line=common.row_line(r), func=common.row_func(r),
                                found='a received %s in %s does keep_alive.%s(...): the next KEEPALIVE of the agent is '
                                      'pushed back, so the gap between two of them can exceed H/3' % (ev, state, ops[0][1]),
                                expected='only the hold timer is restarted on reception', key=name, path=r.describe())
                elif name not in seenk:
                    seenk[name] = 'ok'
                    rep.ok('R03.c', name, file=common.row_file(r), line=common.row_line(r))

    nres = zero_hold_resets(tab, facts, rep, 'R03.d')
    rep.floor('R03.d', 'timer re-arm sites evaluated', nres, 8)
    # accepting an OPEN with H = 0 leaves hold/keepalive timers off
    found0 = False
    for r in tab.get('OPEN_OK', 'OpenSent'):
        iv = hold_iv(r)
        if iv is not None and iv[1] == 0 and r.final == 'OpenConfirm':
            found0 = True
            left = [t for t in ('hold', 'keep_alive') if r.timer_final(t) != 'off']
            key = 'zero-hold-open@OpenSent'
            if left:
                rep.bad('R03.d', key, file=FSM_FILE, line=common.row_line(r), func='FSM.open_received',
                        found='OPEN accepted with H = 0 but %s timer(s) may stay armed (the 240 s hold '
                              'timer armed with the OPEN then expires in session)' % ','.join(left),
                        expected='hold and keepalive timers cancelled when H = 0', key=key, path=r.describe())
            else:
                rep.ok('R03.d', key, file=FSM_FILE, line=common.row_line(r))
    if not found0:
        rep.undecided('R03.d', 'zero-hold-open@OpenSent', found='no H = 0 path for OPEN in OpenSent')

    # ---------------------------------------------------------------- R03.e
    for state in ('OpenSent', 'OpenConfirm', 'Established'):
        rows = tab.get('T_hold', state)
        key = 'T_hold@%s' % state
        bad = None
        for r in rows:
            s = r.sends()
            if not (len(s) == 1 and s[0] == ('notification', 4, 0)) or r.final != 'Idle' or not r.closes():
                bad = r
                break
        if bad is not None or not rows:
            rep.bad('R03.e', key, file=FSM_FILE, line=common.row_line(bad) if bad else None,
                    found='sends %s, closes=%s, final=%s' % (bad.sends(), bool(bad.closes()), bad.final) if bad else 'no row',
                    expected='NOTIFICATION(4,0), close, Idle', key=key, path=bad.describe() if bad else None)
        else:
            rep.ok('R03.e', key, file=FSM_FILE, line=common.row_line(rows[0]))

    # ---------------------------------------------------------------- R03.f
    cm = prog.module('yabgp.common.constants')
    seenf = set()
    for (ev, state), rows in sorted(tab.rows.items()):
        if ev == 'T_delay_open' and facts['dot_dead']:
            continue
        for r in rows:
            if ('open',) in r.sends():
                key = 'large-hold:%s@%s' % (ev, state)
                args = [t[2] for t in r.timer_ops() if t[0] == 'hold' and t[1] == 'reset']
                good = any(a and a[0] == '240' for a in args)
                if not good and key not in seenf:
                    seenf.add(key)
                    rep.bad('R03.f', key, file=FSM_FILE, line=common.row_line(r), func=common.row_func(r),
                            found='OPEN sent, hold timer resets: %s' % args, expected='hold_timer.reset(240)',
                            key=key, path=r.describe())
                elif good and key not in seenf:
                    seenf.add(key)
                    rep.ok('R03.f', key, file=FSM_FILE, line=common.row_line(r))
    if not seenf:
        rep.undecided('R03.f', 'large-hold', found='no path sends OPEN')

    # ---------------------------------------------------------------- R03.g
    timer_shape(prog, rep)


def zero_hold_resets(tab, facts, rep, rule, only_states=None):
    """No hold / keepalive timer is re-armed with a value that can be 0 (it would fire at once)."""
    seen = set()
    nres = 0
    for (ev, state), rows in sorted(tab.rows.items()):
        if ev == 'T_delay_open' and facts['dot_dead']:
            continue
        for r in rows:
            iv = hold_iv(r)
            if only_states is not None and state not in only_states:
                continue
            for e in r.events:
                if e[0] != 'timer' or e[2] != 'reset' or e[1] not in ('hold', 'keep_alive'):
                    continue
                arg = e[3][0] if e[3] else None
                if isinstance(arg, Const):
                    continue            # large hold time
                nres += 1
                name = '%s.reset@%s@%s' % (e[1], ev if ev != 'WIRE' else 'WIRE:' + r.wire['cls'], state)
                zero_possible = iv is None or iv[0] <= 0
                if isinstance(arg, Sym):
                    alo, ahi, aneq = r.st.interval(arg.name)
                    if e[1] == 'hold':
                        zero_possible = alo <= 0 and 0 not in aneq
                if zero_possible:
                    if name not in seen:
                        seen.add(name)
                        rep.bad(rule, name, file=FSM_FILE, line=e[4], func=common.row_func(r),
                                found='%s_timer.reset(%s) reachable with hold time 0 (fires at once)' % (
                                    e[1], cval(arg)),
                                expected='re-arm only under a test that excludes hold_time == 0',
                                key=name, path=r.describe())
                elif name not in seen:
                    seen.add(name)
                    rep.ok(rule, name, file=FSM_FILE, line=e[4])
    return nres


def _handler_types(h, module=None):
    if h.type is None:
        return {'*'}
    t = h.type
    if isinstance(t, ast.Name) and module is not None and isinstance(module.assigns.get(t.id), ast.Tuple):
        t = module.assigns[t.id]          # except _NOT_PENDING:  with  _NOT_PENDING = (A, B, C)
    elts = t.elts if isinstance(t, ast.Tuple) else [t]
    return set(src_of(e).split('.')[-1] for e in elts)


def timer_shape(prog, rep, rule='R03.g'):
    cls = prog.cls('yabgp.core.timer.BGPTimer')
    # active(): the truth is the reactor's (DelayedCall.active()), not a flag the class keeps itself - a timer that
    # fired is not running any more although nobody cancelled it
    fa = cls.find_method('active')
    if fa is None:
        raise AnalysisError('BGPTimer.active vanished')
    rets = [n for n in ast.walk(fa.node) if isinstance(n, ast.Return) and n.value is not None]
    asks = [r_ for r_ in rets if isinstance(r_.value, ast.Call) and isinstance(r_.value.func, ast.Attribute)
            and r_.value.func.attr == 'active' and 'delayed_call' in common.unalias(fa.node, r_.value.func.value)]
    others = [r_ for r_ in rets if r_ not in asks and not (isinstance(r_.value, ast.Constant) and r_.value.value is False)]
    if asks and not others:
        rep.ok(rule, 'BGPTimer.active', file=fa.file, line=fa.node.lineno)
    else:
        rep.bad(rule, 'BGPTimer.active', file=fa.file, line=fa.node.lineno, func=fa.qualname,
                found='active() returns %s: it does not ask the pending DelayedCall, so a timer that has fired still '
                      'counts as running' % [src_of(r_.value) for r_ in (others or rets)][:2],
                expected='return self.delayed_call.active() (False when there is no call)', key='BGPTimer.active')
    need = {'AttributeError', 'AlreadyCalled', 'AlreadyCancelled'}
    for meth, inner in (('reset', 'reset'), ('cancel', 'cancel')):
        f = cls.find_method(meth)
        if f is None:
            raise AnalysisError('BGPTimer.%s vanished' % meth)
        tries = [n for n in ast.walk(f.node) if isinstance(n, ast.Try)]
        ok = False
        why = 'no try block calling self.delayed_call.%s' % inner
        for t in tries:
            calls = [n for n in ast.walk(ast.Module(body=t.body, type_ignores=[]))
                     if isinstance(n, ast.Call) and isinstance(n.func, ast.Attribute) and n.func.attr == inner
                     and 'delayed_call' in src_of(n.func.value)]
            if not calls:
                continue
            if meth == 'reset':
                param = f.params[1] if len(f.params) > 1 else None
                if not (calls[0].args and common.unalias(f.node, calls[0].args[0]) == param):
                    why = 'delayed_call.reset is not called with the requested delay'
                    continue
            types = set()
            rearm = False
            for h in t.handlers:
                types |= _handler_types(h, f.module)
                for n in ast.walk(ast.Module(body=h.body, type_ignores=[])):
                    if isinstance(n, ast.Assign) and isinstance(n.value, ast.Call) and \
                            src_of(n.value.func).endswith('callLater') and \
                            any(isinstance(tg, ast.Attribute) and tg.attr == 'delayed_call' for tg in n.targets):
                        a = n.value.args
                        if len(a) >= 2 and common.unalias(f.node, a[0]) == (f.params[1] if len(f.params) > 1 else None) \
                                and src_of(a[1]) == 'self.callable':
                            rearm = True
            if not (need <= types or '*' in types or 'Exception' in types):
                why = 'except clause %s does not cover %s' % (sorted(types), sorted(need - types))
                continue
            if meth == 'reset' and not rearm:
                why = 'handler does not re-arm with reactor.callLater(delay, self.callable)'
                continue
            if meth == 'reset':
                param = f.params[1] if len(f.params) > 1 else None
                rebinds = [n for n in ast.walk(f.node) if isinstance(n, ast.Name) and n.id == param
                           and isinstance(n.ctx, ast.Store)]
                if rebinds:
                    why = 'the requested delay is rewritten before it is used (line %d): the timer no longer runs ' \
                          'for the interval the state machine computed (H/3 is fractional)' % rebinds[0].lineno
                    continue
            ok = True
        if ok:
            rep.ok(rule, 'BGPTimer.%s' % meth, file=f.file, line=f.node.lineno)
        else:
            rep.bad(rule, 'BGPTimer.%s' % meth, file=f.file, line=f.node.lineno, func=f.qualname,
                    found=why, expected='documented reset/cancel semantics', key='BGPTimer.%s' % meth)
    # callbacks: every timer of FSM.__init__ is built with a bound FSM method
    init = prog.cls('yabgp.core.timer.BGPTimer').find_method('__init__')
    st = [n for n in ast.walk(init.node) if isinstance(n, ast.Assign) and
          any(isinstance(t, ast.Attribute) and t.attr == 'callable' for t in n.targets)]
    if st and isinstance(st[0].value, ast.Name) and st[0].value.id in init.params:
        rep.ok(rule, 'BGPTimer.__init__', file=init.file, line=st[0].lineno)
    else:
        rep.bad(rule, 'BGPTimer.__init__', file=init.file, line=init.node.lineno,
                found='self.callable is not the constructor argument', key='BGPTimer.__init__')
