"""The RFC 4271 section 8.2.2 reaction profile for an active-only speaker (DelayOpen off,
no collision detection, DampPeerOscillations on) - the oracle of C01 (DESIGN Appendix A).

A cell is a list of alternatives (EITHER); a row conforms if it satisfies one of them.
Every alternative is a function row -> list of problems (empty = conforms).  The profile
never demands more than RFC 4271 / the property text state; where they leave a choice the
cell has several alternatives.
"""

STATES = ['Idle', 'Connect', 'Active', 'OpenSent', 'OpenConfirm', 'Established']


def _resets(r):
    return [t for t in r.timer_ops() if t[1] == 'reset']


def allow_of(r):
    for t, b in r.guards:
        if t == 'truth(fsm.allow_automatic_start)':
            return b
    v = r.field('fsm', 'allow_automatic_start')
    if v is not None and hasattr(v, 'value') and not hasattr(v, 'd'):
        return bool(v.value)
    return None


def has_token(r):
    """A reconnection is pending at the end of the path."""
    if r.timer_final('idle_hold') == 'armed':
        return 'idle-hold timer armed'
    if r.connects():
        return 'TCP connect started'
    if r.closes() and r.event not in ('TCP_DOWN', 'TCP_CLOSED'):
        return 'close requested (connectionLost -> connection_closed -> automatic_start)'
    return None


def hold_interval(r):
    v = r.field('fsm', 'hold_time')
    if v is None:
        return None
    if hasattr(v, 'value') and isinstance(getattr(v, 'value'), (int, float)):
        return (v.value, v.value)
    if hasattr(v, 'name'):
        lo, hi, _ = r.st.interval(v.name)
        return (lo, hi)
    return None


def RESTART_HOLD(r):
    """RFC 4271 8.2.2: KEEPALIVE (OpenConfirm/Established) and UPDATE (Established) restart the
    HoldTimer when the negotiated hold time is not zero."""
    iv = hold_interval(r)
    if iv is None or iv[1] < 1:
        return []
    if not any(t[0] == 'hold' and t[1] == 'reset' for t in r.timer_ops()):
        return ['does not restart the HoldTimer (negotiated hold time may be > 0)']
    return []


def IGNORE(r):
    p = []
    if r.sends():
        p.append('sends %s' % (r.sends(),))
    if r.closes():
        p.append('closes the connection')
    if r.connects():
        p.append('starts a TCP connect')
    if _resets(r):
        p.append('re-arms %s' % ','.join(t[0] for t in _resets(r)))
    if r.final != r.pre:
        p.append('state %s -> %s' % (r.pre, r.final))
    return p


SESSION_STATES = ('OpenSent', 'OpenConfirm', 'Established')


def TO_IDLE(code=None, sub=None, need_close=True):
    def chk(r):
        p = []
        s = r.sends()
        if code is None:
            if s:
                p.append('sends %s, expected no message' % (s,))
        else:
            if len(s) != 1 or s[0][0] != 'notification':
                p.append('sends %s, expected exactly one NOTIFICATION(%s,%s)' % (s, code, sub if sub is not None else '*'))
            else:
                if s[0][1] != code:
                    p.append('NOTIFICATION code %s, expected %s' % (s[0][1], code))
                if sub is not None and s[0][2] != sub:
                    p.append('NOTIFICATION subcode %s, expected %s' % (s[0][2], sub))
        if r.final != 'Idle':
            p.append('ends in %s, expected Idle' % r.final)
        if r.connects():
            p.append('starts a TCP connect')
        if need_close and r.regime == 'live' and r.event not in ('TCP_DOWN', 'TCP_CLOSED', 'TCP_FAIL'):
            if not r.closes():
                p.append('does not close the connection')
            elif code is not None:
                ev = [e[0] for e in r.events if e[0] in ('write', 'close')]
                if 'write' in ev and ev.index('close') < ev.index('write'):
                    p.append('closes before sending the NOTIFICATION')
        if r.final == 'Idle' and r.pre not in ('Idle', 'Active') and r.event != 'MSTOP' and \
                allow_of(r) is not False and has_token(r) is None:
            p.append('ends in Idle with no reconnection pending (no idle-hold timer, no connect, no close)')
        # RFC 4271 8.2.2: on the way to Idle the FSM releases all BGP resources; a session timer that keeps
        # running fires in a later Connect / OpenSent and tears the new attempt down
        if r.final == 'Idle' and r.pre in SESSION_STATES and code is not None:
            left = [t for t in ('hold', 'keep_alive') if r.timer_final(t) != 'off']
            if left:
                p.append('the %s timer is not stopped by the error close' % ' / '.join(left))
        return p
    chk.__name__ = 'TO_IDLE(%s,%s)' % (code if code is not None else '-', sub if sub is not None else '*')
    return chk


def STAY(sends=(), close=False):
    """No state change, exactly the given sends, no close / connect."""
    def chk(r):
        p = []
        if [x[0] for x in r.sends()] != list(sends):
            p.append('sends %s, expected %s' % (r.sends(), list(sends)))
        if r.final != r.pre:
            p.append('state %s -> %s' % (r.pre, r.final))
        if r.closes() and not close:
            p.append('closes the connection')
        if r.connects():
            p.append('starts a TCP connect')
        return p
    chk.__name__ = 'STAY(%s)' % ','.join(sends)
    return chk


def GOTO(state, sends=(), connect=None, close=None):
    def chk(r):
        p = []
        if [x[0] for x in r.sends()] != list(sends):
            p.append('sends %s, expected %s' % (r.sends(), list(sends)))
        if r.final != state:
            p.append('ends in %s, expected %s' % (r.final, state))
        if connect is True and not r.connects():
            p.append('does not start a TCP connect')
        if connect is False and r.connects():
            p.append('starts a TCP connect')
        if close is False and r.closes():
            p.append('closes the connection')
        return p
    chk.__name__ = 'GOTO(%s)' % state
    return chk


def SEND_OPEN(r):
    """TCP established in Connect/Active: OPEN sent before OpenSent is entered, large hold timer."""
    p = GOTO('OpenSent', sends=('open',), connect=False, close=False)(r)
    # RFC 4271 8.2.2 (Connect / Active, TCP established): "stops the ConnectRetryTimer (if running)"
    # - in OpenSent and beyond the ConnectRetryTimer is not running
    if r.final == 'OpenSent' and r.timer_final('connect_retry') != 'off':
        p.append('the ConnectRetryTimer is still running (or not known to be stopped) when OpenSent is entered: '
                 'its expiry in OpenSent tears the session down with an FSM error')
    return p


def OPEN_ACCEPTED(r):
    return GOTO('OpenConfirm', sends=('keepalive',), connect=False, close=False)(r)


def CRT_CONNECT(r):
    p = []
    if r.sends():
        p.append('sends %s' % (r.sends(),))
    if not r.connects():
        p.append('does not start a new TCP connect')
    if not any(t[0] == 'connect_retry' and t[1] == 'reset' for t in r.timer_ops()):
        p.append('does not restart the ConnectRetryTimer')
    if r.final not in ('Connect',) and not (r.pre == 'Active' and r.final == 'Active'):
        p.append('ends in %s' % r.final)
    return p


def START(r):
    p = []
    if r.event == 'MSTART':
        a = r.field('fsm', 'allow_automatic_start')
        if not (a is not None and getattr(a, 'value', None) is True):
            p.append('manual start leaves automatic restart disabled (allow_automatic_start = %s): after the '
                     'next failure the idle-hold expiry is ignored' % (a.desc() if a is not None else None))
    if r.sends():
        p.append('sends %s' % (r.sends(),))
    if r.final != 'Connect':
        p.append('ends in %s, expected Connect' % r.final)
    if not r.connects():
        p.append('does not start a TCP connect')
    if not any(t[0] == 'connect_retry' and t[1] == 'reset' for t in r.timer_ops()):
        p.append('does not start the ConnectRetryTimer')
    return p


def STOP(r):
    p = []
    s = r.sends()
    if r.pre == 'Established':
        if len(s) != 1 or s[0][0] != 'notification' or s[0][1] != 6:
            p.append('sends %s, expected NOTIFICATION Cease(6)' % (s,))
    else:
        for x in s:
            if x[0] != 'notification' or x[1] != 6:
                p.append('sends %s on stop' % (x,))
    if r.final != 'Idle':
        p.append('ends in %s, expected Idle' % r.final)
    if r.connects():
        p.append('starts a TCP connect')
    if r.regime == 'live' and r.pre != 'Idle' and not r.closes():
        p.append('does not close the connection')
    # RFC 4271 8.2.2, ManualStop in every state: "sets the ConnectRetryCounter to zero"
    c = r.field('fsm', 'connect_retry_counter')
    if not (c is not None and getattr(c, 'value', None) == 0):
        p.append('the ConnectRetryCounter is %s after the stop, expected 0 (regime: %s)' % (
            c.desc() if c is not None else None, r.regime))
    return p


def CLOSED(r):
    """connectionLost after our own close: Idle, nothing on the wire."""
    p = []
    if r.sends():
        p.append('sends %s' % (r.sends(),))
    if r.final != 'Idle':
        p.append('ends in %s, expected Idle' % r.final)
    if r.connects():
        p.append('starts a TCP connect at once (idle-hold expected)')
    return p


def DC(r):
    return []


DC.__name__ = 'DONTCARE'


def _both(a, b):
    def chk(r):
        return a(r) + b(r)
    chk.__name__ = '%s+%s' % (a.__name__, b.__name__)
    return chk


def _all(x):
    return {s: x for s in STATES}


def _cells(idle, connect, active, opensent, openconfirm, established):
    vals = [idle, connect, active, opensent, openconfirm, established]
    return {s: (v if isinstance(v, list) else [v]) for s, v in zip(STATES, vals)}


FSM5 = TO_IDLE(5)

PROFILE = {
    'MSTART': _cells(START, IGNORE, IGNORE, IGNORE, IGNORE, IGNORE),
    'MSTOP': _cells(STOP, STOP, STOP, STOP, STOP, STOP),
    'T_connect_retry': _cells(IGNORE, CRT_CONNECT, CRT_CONNECT, FSM5, FSM5, FSM5),
    'T_hold': _cells(IGNORE, TO_IDLE(), TO_IDLE(), TO_IDLE(4, 0), TO_IDLE(4, 0), TO_IDLE(4, 0)),
    'T_keep_alive': _cells(IGNORE, TO_IDLE(), TO_IDLE(), [IGNORE, FSM5],
                           STAY(('keepalive',)), STAY(('keepalive',))),
    'T_delay_open': _cells(IGNORE, SEND_OPEN, SEND_OPEN, FSM5, FSM5, FSM5),
    'T_idle_hold': _cells([START, IGNORE], [IGNORE, TO_IDLE()], [IGNORE, TO_IDLE()], [IGNORE, TO_IDLE()],
                          [IGNORE, TO_IDLE()], [IGNORE, TO_IDLE()]),
    'TCP_UP': _cells(DC, SEND_OPEN, SEND_OPEN, DC, DC, DC),
    'TCP_FAIL': _cells(IGNORE, TO_IDLE(), TO_IDLE(), [GOTO('Active', connect=False), TO_IDLE()],
                       TO_IDLE(), TO_IDLE()),
    'TCP_DOWN': _cells(IGNORE, TO_IDLE(), TO_IDLE(), [GOTO('Active', connect=False), TO_IDLE()],
                       TO_IDLE(), TO_IDLE()),
    'TCP_CLOSED': _cells(CLOSED, CLOSED, CLOSED, CLOSED, CLOSED, CLOSED),
    'OPEN_OK': _cells(IGNORE, TO_IDLE(), TO_IDLE(), OPEN_ACCEPTED, [IGNORE, FSM5], [FSM5, IGNORE]),
    'HDR_ERR': _cells(IGNORE, TO_IDLE(1, 'sub'), TO_IDLE(1, 'sub'), TO_IDLE(1, 'sub'), TO_IDLE(1, 'sub'),
                      [TO_IDLE(1, 'sub'), FSM5]),
    'OPEN_ERR': _cells(IGNORE, TO_IDLE(2, 'sub'), TO_IDLE(2, 'sub'), TO_IDLE(2, 'sub'), TO_IDLE(2, 'sub'),
                       [TO_IDLE(2, 'sub'), FSM5]),
    'NOTIF_VER': _cells(IGNORE, TO_IDLE(), TO_IDLE(), TO_IDLE(), TO_IDLE(), TO_IDLE()),
    'NOTIF': _cells(IGNORE, TO_IDLE(), TO_IDLE(), TO_IDLE(), TO_IDLE(), TO_IDLE()),
    'KEEPALIVE': _cells(IGNORE, TO_IDLE(), TO_IDLE(), FSM5,
                        _both(GOTO('Established', connect=False, close=False), RESTART_HOLD),
                        _both(STAY(), RESTART_HOLD)),
    'UPDATE': _cells(IGNORE, TO_IDLE(), TO_IDLE(), FSM5, FSM5, _both(STAY(), RESTART_HOLD)),
    'ROUTEREFRESH': _cells([IGNORE, FSM5], [IGNORE, TO_IDLE()], [IGNORE, TO_IDLE()], [IGNORE, FSM5],
                           [IGNORE, FSM5], STAY()),
    'NOINPUT': _cells(IGNORE, IGNORE, IGNORE, IGNORE, IGNORE, IGNORE),
}


def hdr_cell(code, sub, state):
    """Cell of HDR_ERR / OPEN_ERR with a concrete sub-code (wire rows)."""
    if state == 'Idle':
        return [IGNORE]
    alts = [TO_IDLE(code, sub)]
    if state == 'Established':
        alts.append(FSM5)
    return alts


def evaluate(cell, row):
    """-> (ok, problems-of-best-alternative, name-of-alternative)."""
    best = None
    for alt in cell:
        p = alt(row)
        if not p:
            return True, [], alt.__name__
        if best is None or len(p) < len(best[0]):
            best = (p, alt.__name__)
    return False, best[0], ' | '.join(a.__name__ for a in cell)
