"""Primitive operations of the abstract interpreter: arithmetic with intervals, comparisons
with refinement, slices, builtins, struct, containers."""
import ast
import struct as _struct

from .front import ClassInfo, External, Module, src_of
from .values import (V, Const, Sym, Opaque, Obj, FuncV, ClassV, ModV, TupleV, BytesV, Action, INF)

BUILTINS = set(dir(__builtins__)) if not isinstance(__builtins__, dict) else set(__builtins__)

UNSIGNED = {'B': (0, 255), 'H': (0, 65535), 'I': (0, 2 ** 32 - 1), 'L': (0, 2 ** 32 - 1),
            'Q': (0, 2 ** 64 - 1), '?': (0, 1)}
SIGNED = {'b': (-128, 127), 'h': (-32768, 32767), 'i': (-2 ** 31, 2 ** 31 - 1),
          'l': (-2 ** 31, 2 ** 31 - 1), 'q': (-2 ** 63, 2 ** 63 - 1)}


class SuperV(V):
    def __init__(self, cinfo, selfv):
        self.cinfo = cinfo
        self.selfv = selfv

    def desc(self):
        return 'super(%s)' % self.cinfo.name


def parse_fmt(fmt):
    """'!16sHB' -> list of (code, count) one entry per produced value; None if not understood."""
    out = []
    f = fmt.lstrip('!<>=@')
    num = ''
    for ch in f:
        if ch.isdigit():
            num += ch
            continue
        n = int(num) if num else 1
        num = ''
        if ch in 'sp':
            out.append((ch, n))
        elif ch == 'x':
            pass
        elif ch.isalpha() or ch == '?':
            out.extend([(ch, 1)] * n)
        else:
            return None
    return out


def fmt_size(fmt):
    try:
        return _struct.calcsize(fmt)
    except Exception:
        return None


# ---------------------------------------------------------------------- intervals
def ival(v, st):
    if isinstance(v, Const):
        if isinstance(v.value, bool):
            return (int(v.value), int(v.value))
        if isinstance(v.value, (int, float)):
            return (v.value, v.value)
        return None
    if isinstance(v, Sym):
        lo, hi, _ = st.interval(v.name)
        return (lo, hi)
    return None


def mk_sym(st, name, lo=-INF, hi=INF, origin=None):
    if name not in st.cons:
        st.cons[name] = (lo, hi, frozenset())
    return Sym(name, origin)


def _mul(a, b):
    if a == 0 or b == 0:
        return 0
    return a * b


def arith(op, a, b):
    """Interval arithmetic; a, b = (lo, hi)."""
    (al, ah), (bl, bh) = a, b
    try:
        if isinstance(op, ast.Add):
            return (al + bl, ah + bh)
        if isinstance(op, ast.Sub):
            return (al - bh, ah - bl)
        if isinstance(op, ast.Mult):
            c = [_mul(al, bl), _mul(al, bh), _mul(ah, bl), _mul(ah, bh)]
            return (min(c), max(c))
        if isinstance(op, (ast.FloorDiv, ast.Div)):
            if bl > 0:
                c = [al / bl, al / bh if bh != INF else 0, ah / bl, ah / bh if bh != INF else 0]
                lo, hi = min(c), max(c)
                if isinstance(op, ast.FloorDiv):
                    import math
                    lo = math.floor(lo) if lo not in (INF, -INF) else lo
                    hi = math.floor(hi) if hi not in (INF, -INF) else hi
                return (lo, hi)
            return (-INF, INF)
        if isinstance(op, ast.Mod):
            if bl > 0 and bh != INF:
                if al >= 0 and ah < bl:
                    return (al, ah)
                return (0, bh - 1)
            if bl > 0:
                return (0, INF) if al >= 0 else (-INF, INF)
            return (-INF, INF)
        if isinstance(op, ast.LShift):
            if al >= 0 and bl >= 0 and bh != INF and ah != INF:
                return (al << int(bl), ah << int(bh))
            if al >= 0 and bl >= 0:
                return (al, INF)
            return (-INF, INF)
        if isinstance(op, ast.RShift):
            if al >= 0 and bl >= 0:
                return (0 if bh == INF or ah == INF else int(al) >> int(bh), ah if ah == INF else int(ah) >> int(bl))
            return (-INF, INF)
        if isinstance(op, ast.BitAnd):
            if al >= 0 and bl >= 0:
                return (0, min(ah, bh))
            if bl >= 0:
                return (0, bh)
            if al >= 0:
                return (0, ah)
            return (-INF, INF)
        if isinstance(op, (ast.BitOr, ast.BitXor)):
            if al >= 0 and bl >= 0:
                if ah == INF or bh == INF:
                    return (0, INF)
                top = 1
                while top <= max(ah, bh):
                    top <<= 1
                return (max(al, bl) if isinstance(op, ast.BitOr) else 0, top - 1)
            return (-INF, INF)
    except (OverflowError, ValueError, ZeroDivisionError):
        pass
    return (-INF, INF)


_OPNAME = {ast.Add: '+', ast.Sub: '-', ast.Mult: '*', ast.Div: '/', ast.FloorDiv: '//', ast.Mod: '%',
           ast.LShift: '<<', ast.RShift: '>>', ast.BitAnd: '&', ast.BitOr: '|', ast.BitXor: '^',
           ast.Pow: '**'}


def is_bytes(v):
    return isinstance(v, BytesV) or (isinstance(v, Const) and isinstance(v.value, bytes)) or \
        (isinstance(v, Opaque) and v.kind == 'bytes')


def to_parts(v, line=None):
    if isinstance(v, BytesV):
        return list(v.parts)
    if isinstance(v, Const) and isinstance(v.value, bytes):
        return [('lit', v.value)] if v.value else []
    return [('opq', v, line)]


def binop(ip, op, a, b, st, node=None):
    from . import front
    line = getattr(node, 'lineno', None)
    if isinstance(a, Const) and isinstance(b, Const):
        try:
            return Const(front._BINOPS[type(op)](a.value, b.value))
        except Exception:
            return Opaque('(%s %s %s)' % (a.desc(), _OPNAME.get(type(op), '?'), b.desc()))
    if isinstance(op, ast.Add) and (is_bytes(a) or is_bytes(b)):
        return BytesV(to_parts(a, line) + to_parts(b, line))
    if isinstance(op, ast.Mult) and (is_bytes(a) or is_bytes(b)):
        bv, n = (a, b) if is_bytes(a) else (b, a)
        return BytesV([('rep', bv, n, line)])
    if isinstance(op, ast.Mod) and isinstance(a, Const) and isinstance(a.value, str):
        return Opaque('fmt(%s %% %s)' % (a.desc(), b.desc()), 'str')
    ia, ib = ival(a, st), ival(b, st)
    name = '(%s %s %s)' % (a.desc(), _OPNAME.get(type(op), '?'), b.desc())
    if ia is not None and ib is not None:
        lo, hi = arith(op, ia, ib)
        r = mk_sym(st, name, lo, hi, (_OPNAME.get(type(op), '?'), [a, b]))
        if isinstance(op, (ast.Add, ast.Sub)):
            if isinstance(a, Sym) and isinstance(b, Const) and isinstance(b.value, int):
                st.lin[name] = (a.name, b.value if isinstance(op, ast.Add) else -b.value)
            elif isinstance(b, Sym) and isinstance(a, Const) and isinstance(a.value, int) \
                    and isinstance(op, ast.Add):
                st.lin[name] = (b.name, a.value)
        return r
    if isinstance(a, (Sym, Const)) or isinstance(b, (Sym, Const)):
        if (getattr(a, 'kind', None) in (None, 'int')) and (getattr(b, 'kind', None) in (None, 'int')):
            return mk_sym(st, name, -INF, INF, (_OPNAME.get(type(op), '?'), [a, b]))
    return Opaque(name)


def unop(ip, op, v, st):
    from . import front
    if isinstance(v, Const):
        try:
            return Const(front._UNOPS[type(op)](v.value))
        except Exception:
            pass
    iv = ival(v, st)
    if iv is not None and isinstance(op, ast.USub):
        return mk_sym(st, '(-%s)' % v.desc(), -iv[1], -iv[0], ('neg', [v]))
    return Opaque('(%s%s)' % (type(op).__name__, v.desc()))


# ---------------------------------------------------------------------- truth / compare
def truth_static(ip, v, st):
    if isinstance(v, Const):
        return bool(v.value)
    if isinstance(v, (FuncV, ClassV, ModV)):
        return True
    if isinstance(v, TupleV):
        return len(v.items) > 0
    if isinstance(v, Obj):
        h = st.heap[v.oid]
        if h.kind == 'inst':
            return True
        if h.items:
            return True
        if not h.open:
            return False
        return None
    if isinstance(v, Sym):
        lo, hi, neq = st.interval(v.name)
        if lo > 0 or hi < 0 or (0 in neq):
            return True
        if lo == 0 and hi == 0:
            return False
        return None
    if isinstance(v, BytesV):
        for p in v.parts:
            if p[0] == 'lit' and p[1]:
                return True
            if p[0] == 'pack' and (fmt_size(p[1]) or 0) > 0:
                return True
            if p[0] == 'fix' and p[1] > 0:
                return True
        if all(p[0] == 'fix' and p[1] == 0 for p in v.parts):
            return False
        if not v.parts:
            return False
        return None
    return None


def _fork_atom(ip, st, key, line):
    if key in st.atoms:
        return [(st.atoms[key], st)]
    fq = getattr(st.cur_func(), 'qualname', None)
    s1, s2 = st, st.fork()
    ip._count()
    s1.atoms[key] = True
    s1.path.append((key, True, line, fq))
    s2.atoms[key] = False
    s2.path.append((key, False, line, fq))
    return [(True, s1), (False, s2)]


def _refine(st, name, lo, hi, neq_add=None):
    l0, h0, n0 = st.interval(name)
    l1, h1 = max(l0, lo), min(h0, hi)
    n1 = n0 | frozenset([neq_add]) if neq_add is not None else n0
    # tighten integer bounds on excluded end points
    changed = True
    while changed and l1 <= h1 and l1 not in (INF, -INF):
        changed = False
        if l1 in n1:
            l1 += 1
            changed = True
    changed = True
    while changed and l1 <= h1 and h1 not in (INF, -INF):
        changed = False
        if h1 in n1:
            h1 -= 1
            changed = True
    st.cons[name] = (l1, h1, n1)
    if name in st.lin and l1 <= h1:
        x, c = st.lin[name]
        xl, xh, xn = st.interval(x)
        nl, nh = max(xl, l1 - c), min(xh, h1 - c)
        nn = xn | frozenset(v - c for v in n1 if isinstance(v, int))
        if (nl, nh, nn) != (xl, xh, xn):
            st.cons[x] = (nl, nh, nn)
            if nl > nh:
                return False
    return l1 <= h1


_FLIP = {ast.Lt: ast.Gt, ast.Gt: ast.Lt, ast.LtE: ast.GtE, ast.GtE: ast.LtE, ast.Eq: ast.Eq,
         ast.NotEq: ast.NotEq}


def compare(ip, op, a, b, st, node=None):
    """-> list of (bool, state)."""
    from . import front
    line = getattr(node, 'lineno', None)
    fq = getattr(st.cur_func(), 'qualname', None)
    t = type(op)
    if isinstance(a, Const) and isinstance(b, Const):
        try:
            return [(bool(front._CMPOPS[t](a.value, b.value)), st)]
        except Exception:
            return _fork_atom(ip, st, '%s %s %s' % (a.desc(), t.__name__, b.desc()), line)
    if t in (ast.Is, ast.IsNot):
        pos = t is ast.Is
        for x, y in ((a, b), (b, a)):
            if isinstance(y, Const) and y.value is None:
                if isinstance(x, (Obj, FuncV, ClassV, ModV, TupleV, BytesV, Sym)):
                    return [(not pos, st)]
                if isinstance(x, Opaque) and x.kind in ('str', 'bytes', 'int', 'bool', 'obj'):
                    return [(not pos, st)]       # the result of str() / a packed value is never None
                if isinstance(x, Const):
                    return [((x.value is None) == pos, st)]
        if isinstance(a, Obj) and isinstance(b, Obj):
            return [((a.oid == b.oid) == pos, st)]
        if isinstance(a, Obj) and isinstance(b, Const) or isinstance(b, Obj) and isinstance(a, Const):
            return [(not pos, st)]
        key = '%s is %s' % (a.desc(), b.desc())
        return [(r == pos, s) for r, s in _fork_atom(ip, st, key, line)]
    if t in (ast.In, ast.NotIn):
        pos = t is ast.In
        res = contains(ip, a, b, st, line)
        return [(r == pos, s) for r, s in res]
    # an opaque scalar compared with an integer constant behaves like a symbol named after it
    if t in _FLIP and t not in (ast.Eq, ast.NotEq):
        if isinstance(a, Opaque) and a.kind in (None, 'int') and isinstance(b, Const) and \
                isinstance(b.value, int) and not isinstance(b.value, bool) and not isinstance(a, SliceV):
            a = mk_sym(st, a.d, -INF, INF, ('opaque', [a]))
        elif isinstance(b, Opaque) and b.kind in (None, 'int') and isinstance(a, Const) and \
                isinstance(a.value, int) and not isinstance(a.value, bool) and not isinstance(b, SliceV):
            b = mk_sym(st, b.d, -INF, INF, ('opaque', [b]))
    # numeric comparison of a symbol with a constant: interval refinement
    if isinstance(b, Sym) and isinstance(a, Const) and t in _FLIP:
        a, b, t = b, a, _FLIP[t]
    if isinstance(a, Sym) and isinstance(b, Const) and isinstance(b.value, (int, float)) \
            and not isinstance(b.value, bool) and t in _FLIP:
        c = b.value
        lo, hi, neq = st.interval(a.name)
        if t is ast.Eq:
            tr, fa = (c, c, None), (-INF, INF, c)
        elif t is ast.NotEq:
            tr, fa = (-INF, INF, c), (c, c, None)
        elif t is ast.Lt:
            tr, fa = (-INF, c - 1, None), (c, INF, None)
        elif t is ast.LtE:
            tr, fa = (-INF, c, None), (c + 1, INF, None)
        elif t is ast.Gt:
            tr, fa = (c + 1, INF, None), (-INF, c, None)
        else:
            tr, fa = (c, INF, None), (-INF, c - 1, None)
        out = []
        s_t = st.fork()
        s_f = st.fork()
        ok_t = _refine(s_t, a.name, *tr)
        ok_f = _refine(s_f, a.name, *fa)
        text = '%s %s %s' % (a.name, _CMPTXT[t], c)
        if ok_t and ok_f:
            ip._count()
            s_t.path.append((text, True, line, fq))
            s_f.path.append((text, False, line, fq))
            return [(True, s_t), (False, s_f)]
        if ok_t:
            return [(True, st)]
        if ok_f:
            return [(False, st)]
        return [(False, st)]
    if isinstance(a, Sym) and isinstance(b, Sym) and a.name == b.name:
        return [(t in (ast.Eq, ast.LtE, ast.GtE), st)]
    if isinstance(a, Obj) and isinstance(b, Obj) and t in (ast.Eq, ast.NotEq) \
            and st.heap[a.oid].kind == 'inst' and st.heap[b.oid].kind == 'inst':
        return [((a.oid == b.oid) == (t is ast.Eq), st)]
    if t in (ast.Eq, ast.NotEq):
        for x, y in ((a, b), (b, a)):
            if isinstance(x, BytesV) and isinstance(y, Const) and isinstance(y.value, bytes):
                lit = b''
                for p in x.parts:
                    if p[0] == 'lit':
                        lit += p[1]
                    else:
                        break
                n = min(len(lit), len(y.value))
                lo_, hi_ = bytes_len(x, st)
                if lit[:n] != y.value[:n] or len(y.value) < lo_ or len(y.value) > hi_:
                    return [(t is ast.NotEq, st)]

        def concrete(v):
            if isinstance(v, Const):
                return True, v.value
            if isinstance(v, TupleV):
                xs = [concrete(x) for x in v.items]
                return all(o for o, _ in xs), tuple(x for _, x in xs)
            if isinstance(v, Obj) and st.heap[v.oid].kind == 'list' and not st.heap[v.oid].open:
                xs = [concrete(x) for x in st.heap[v.oid].items]
                return all(o for o, _ in xs), [x for _, x in xs]
            return False, None
        oa, va = concrete(a)
        ob, vb = concrete(b)
        if oa and ob:
            return [((va == vb) == (t is ast.Eq), st)]
    # interval separation between two symbols
    ia, ib = ival(a, st), ival(b, st)
    if ia is not None and ib is not None and t in _FLIP:
        if t is ast.Lt and ia[1] < ib[0] or t is ast.LtE and ia[1] <= ib[0] or \
                t is ast.Gt and ia[0] > ib[1] or t is ast.GtE and ia[0] >= ib[1] or \
                t is ast.NotEq and (ia[1] < ib[0] or ia[0] > ib[1]):
            return [(True, st)]
        if t is ast.Lt and ia[0] >= ib[1] or t is ast.LtE and ia[0] > ib[1] or \
                t is ast.Gt and ia[1] <= ib[0] or t is ast.GtE and ia[1] < ib[0] or \
                t is ast.Eq and (ia[1] < ib[0] or ia[0] > ib[1]):
            return [(False, st)]
    key = '%s %s %s' % (a.desc(), _CMPTXT.get(t, t.__name__), b.desc())
    if t is ast.NotEq:
        key2 = '%s == %s' % (a.desc(), b.desc())
        return [(not r, s) for r, s in _fork_atom(ip, st, key2, line)]
    return _fork_atom(ip, st, key, line)


_CMPTXT = {ast.Eq: '==', ast.NotEq: '!=', ast.Lt: '<', ast.LtE: '<=', ast.Gt: '>', ast.GtE: '>='}


def contains(ip, a, b, st, line):
    """a in b -> list of (bool, state)."""
    items = None
    if isinstance(b, Const) and isinstance(b.value, (tuple, list, set, frozenset)):
        items = [Const(x) for x in b.value]
    elif isinstance(b, Const) and isinstance(b.value, dict):
        items = [Const(x) for x in b.value.keys()]
    elif isinstance(b, TupleV):
        items = b.items
    elif isinstance(b, Obj):
        h = st.heap[b.oid]
        if h.kind == 'list' and not h.open:
            items = list(h.items)
        elif h.kind == 'dict':
            if isinstance(a, Const):
                try:
                    if a.value in h.items:
                        return [(True, st)]
                except TypeError:
                    pass
                if not h.open:
                    return [(False, st)]
            elif not h.open:
                items = [Const(k) for k in h.items]
    if isinstance(a, Const) and isinstance(b, Const):
        try:
            return [(a.value in b.value, st)]
        except Exception:
            pass
    if items is None:
        return _fork_atom(ip, st, '%s in %s' % (a.desc(), b.desc()), line)
    out = []

    def go(i, s):
        if i == len(items):
            out.append((False, s))
            return
        for r, s2 in compare(ip, ast.Eq(), a, items[i], s, None):
            if r:
                out.append((True, s2))
            else:
                go(i + 1, s2)
    go(0, st)
    return out


# ---------------------------------------------------------------------- slices / containers
def slice_(ip, b, lo, hi, step, st, node=None):
    def cv(x):
        return x.value if isinstance(x, Const) else x
    if isinstance(b, Const) and all(isinstance(x, Const) for x in (lo, hi, step)):
        try:
            return Const(b.value[lo.value:hi.value:step.value])
        except Exception:
            pass
    d = '%s[%s:%s]' % (b.desc(), '' if cv(lo) is None else lo.desc(), '' if cv(hi) is None else hi.desc())
    if isinstance(b, BytesV) and all(isinstance(x, Const) for x in (lo, hi, step)) and step.value is None \
            and b.parts and all(p[0] == 'lit' for p in b.parts):
        try:
            return Const(b''.join(p[1] for p in b.parts)[lo.value:hi.value])
        except Exception:
            pass
    if isinstance(b, BytesV) and all(isinstance(x, Const) for x in (lo, hi, step)) and step.value is None:
        if getattr(ip, 'record_slices', False) and b.parts and all(p[0] in ('lit', 'fix') for p in b.parts):
            return _cut_recorded(ip, b, lo.value, hi.value, st, node)
        if getattr(ip, 'record_slices', False) and b.parts and isinstance(hi.value, int) and hi.value >= 0 and \
                (lo.value is None or (isinstance(lo.value, int) and lo.value >= 0)):
            # a window that lies entirely inside the leading parts of known size
            known = []
            n = 0
            for p in b.parts:
                if p[0] not in ('lit', 'fix'):
                    break
                known.append(p)
                n += len(p[1]) if p[0] == 'lit' else p[1]
            if known and hi.value <= n:
                return _cut_recorded(ip, BytesV(known), lo.value, hi.value, st, node)
        bl, bh = bytes_len(b, st)
        if bl == bh and bl != INF:
            n = len(range(int(bl))[lo.value:hi.value])
            return BytesV([('fix', n, d)])
    if isinstance(b, Obj) and st.heap[b.oid].kind == 'list':
        h = st.heap[b.oid]
        if not h.open and all(isinstance(x, Const) for x in (lo, hi, step)):
            o = st.new_obj('list', hint='list')
            st.heap[o.oid].items = h.items[lo.value:hi.value:step.value]
            return o
        return SliceV(d, 'list', b, lo, hi)
    kind = 'bytes' if is_bytes(b) else getattr(b, 'kind', None)
    return SliceV(d, kind, b, lo, hi)


def fix_origin(name):
    """('base', absolute offset) of a fixed-width part named 'base@off' (read-coverage analyses)."""
    base, sep, off = name.rpartition('@')
    if sep and off.isdigit():
        return base, int(off)
    return name, 0


def _cut_recorded(ip, b, lo, hi, st, node):
    """Exact slice of a byte string made of literal and fixed-width parts; every fixed-width piece keeps
    its absolute offset in the name and the read is logged as a 'slice' action."""
    total = sum(len(p[1]) if p[0] == 'lit' else p[1] for p in b.parts)
    r = range(total)[lo:hi]
    out = []
    pos = 0
    for p in b.parts:
        n = len(p[1]) if p[0] == 'lit' else p[1]
        a, z = max(r.start, pos), min(r.stop, pos + n)
        if a < z:
            if p[0] == 'lit':
                out.append(('lit', p[1][a - pos:z - pos]))
            else:
                base, off = fix_origin(p[2])
                out.append(('fix', z - a, '%s@%d' % (base, off + a - pos)))
                st.actions.append(Action('slice', base, 'slice', [Const(off + a - pos), Const(off + z - pos)], None,
                                         getattr(node, 'lineno', None), getattr(st.cur_func(), 'qualname', None)))
        pos += n
    if out and all(p[0] == 'lit' for p in out):
        return Const(b''.join(p[1] for p in out))
    return BytesV(out) if out else Const(b'')


def record_uses(ip, args, st, line):
    """A byte string with fixed-width parts handed whole to a callee counts as read."""
    for a in args:
        if isinstance(a, BytesV):
            for p in a.parts:
                if p[0] == 'fix':
                    base, off = fix_origin(p[2])
                    st.actions.append(Action('slice', base, 'use', [Const(off), Const(off + p[1])], None, line,
                                             getattr(st.cur_func(), 'qualname', None)))


class SliceV(Opaque):
    """An opaque slice that remembers base and bounds (window / progress analyses)."""
    __slots__ = ('base', 'lo', 'hi')

    def __init__(self, d, kind, base, lo, hi):
        Opaque.__init__(self, d, kind)
        self.base = base
        self.lo = lo
        self.hi = hi


def unpack_iter(ip, v, n, st):
    if isinstance(v, TupleV):
        return v.items if len(v.items) == n else None
    if isinstance(v, Const) and isinstance(v.value, (tuple, list)):
        return [Const(x) for x in v.value] if len(v.value) == n else None
    if isinstance(v, Obj):
        h = st.heap[v.oid]
        if h.kind == 'list' and not h.open:
            return list(h.items) if len(h.items) == n else None
    return [Opaque('%s<%d>' % (v.desc(), i)) for i in range(n)]


def iter_items(ip, v, st):
    if isinstance(v, TupleV):
        return list(v.items)
    if isinstance(v, Const) and isinstance(v.value, (tuple, list, set, frozenset, dict, str)):
        return [Const(x) for x in v.value]
    if isinstance(v, Obj):
        h = st.heap[v.oid]
        if h.kind == 'list' and not h.open:
            return list(h.items)
        if h.kind == 'dict' and not h.open:
            return [Const(k) for k in h.items]
    return None


# ---------------------------------------------------------------------- calls
def ext_name(fv):
    if isinstance(fv, ModV) and isinstance(fv.mod, External):
        d = fv.mod.dotted
        for pre in ('builtins.', '__builtin__.', 'six.moves.', 'past.builtins.'):
            if d.startswith(pre):
                return d[len(pre):]
        return d
    if isinstance(fv, Opaque) and fv.d.startswith('builtin:'):
        return fv.d[8:]
    return None


def call_prim(ip, fv, args, kwargs, st, line, node):
    """Builtins, struct, container methods.  None = not a primitive."""
    name = ext_name(fv)
    if name is not None:
        if getattr(ip, 'record_slices', False) and name not in ('len', 'isinstance', 'bool'):
            record_uses(ip, args, st, line)
        h = _EXT.get(name)
        if h is not None:
            return h(ip, args, kwargs, st, line, node)
        return None
    if isinstance(fv, Opaque):
        # method on a heap container: desc is "<oid>.<meth>"
        target, _, meth = fv.d.rpartition('.')
        if target in st.heap and st.heap[target].kind in ('list', 'dict'):
            return container_call(ip, Obj(target), meth, args, kwargs, st, line)
        if isinstance(fv, (SuperCall, ConstMethod)):
            return fv.invoke(ip, args, kwargs, st, line)
    return None


class ConstMethod(Opaque):
    """Method of a constant str / bytes receiver (folded when all arguments are constant)."""
    __slots__ = ('recv', 'attr')
    SAFE = {'split', 'upper', 'lower', 'strip', 'startswith', 'endswith', 'encode', 'decode', 'join',
            'replace', 'rstrip', 'lstrip', 'isdigit', 'find', 'count', 'format', 'zfill', 'rjust', 'ljust'}

    def __init__(self, recv, attr):
        Opaque.__init__(self, '%r.%s' % (recv, attr))
        self.recv = recv
        self.attr = attr

    def invoke(self, ip, args, kwargs, st, line):
        if all(isinstance(a, Const) for a in args) and not kwargs:
            try:
                r = getattr(self.recv, self.attr)(*[a.value for a in args])
            except Exception as ex:
                return [('raise', Opaque(type(ex).__name__), st)]
            if isinstance(r, list):
                o = st.new_obj('list', hint='list')
                st.heap[o.oid].items = [Const(x) for x in r]
                return [('val', o, st)]
            return [('val', Const(r), st)]
        kind = 'bytes' if self.attr == 'encode' else None
        return [('val', Opaque('%s(%s)' % (self.d, ', '.join(a.desc() for a in args)), kind), st)]


class ConstDictGet(ConstMethod):
    """`.get` of a constant dictionary (module tables): exact for a constant key; for a symbolic integer key
    the lookup forks over the integer keys of the table, the remaining case yields the default."""
    __slots__ = ()

    def __init__(self, recv):
        Opaque.__init__(self, 'table%s.get' % (sorted(recv, key=repr)[:3],))
        self.recv = recv
        self.attr = 'get'

    def invoke(self, ip, args, kwargs, st, line):
        if not args or kwargs:
            return [('val', Opaque('%s(...)' % self.d), st)]
        key = args[0]
        default = args[1] if len(args) > 1 else Const(None)
        if isinstance(key, Const):
            try:
                if key.value in self.recv:
                    return [('val', Const(self.recv[key.value]), st)]
            except TypeError:
                pass
            return [('val', default, st)]
        ikeys = sorted(k for k in self.recv if isinstance(k, int) and not isinstance(k, bool))
        if not ikeys or len(ikeys) != len(self.recv) or len(ikeys) > 16 or not isinstance(key, (Sym, Opaque)):
            return [('val', Opaque('%s(%s)' % (self.d, key.desc())), st)]
        out = []

        def go(i, s):
            if i == len(ikeys):
                out.append(('val', default, s))
                return
            for r, s2 in compare(ip, ast.Eq(), key, Const(ikeys[i]), s, None):
                if r:
                    out.append(('val', Const(self.recv[ikeys[i]]), s2))
                else:
                    go(i + 1, s2)
        go(0, st)
        return out


class SuperCall(Opaque):
    __slots__ = ('sup', 'attr')

    def __init__(self, sup, attr):
        Opaque.__init__(self, 'super(%s).%s' % (sup.cinfo.name, attr))
        self.sup = sup
        self.attr = attr

    def invoke(self, ip, args, kwargs, st, line):
        if self.attr == '__setattr__' and len(args) == 2 and isinstance(args[0], Const):
            o = self.sup.selfv
            st.heap[o.oid].fields[args[0].value] = args[1]
            st.writes.append((o.oid, args[0].value, args[1], line, getattr(st.cur_func(), 'qualname', None)))
            return [('val', Const(None), st)]
        return [('val', Const(None), st)]


def super_attr(ip, sup, attr, st):
    mro = st.heap[sup.selfv.oid].cls.mro() if isinstance(sup.selfv, Obj) else sup.cinfo.mro()
    seen = False
    for c in mro:
        if seen and attr in c.methods:
            return FuncV(c.methods[attr], sup.selfv)
        if c is sup.cinfo:
            seen = True
    return SuperCall(sup, attr)


def container_call(ip, o, meth, args, kwargs, st, line):
    h = st.heap[o.oid]
    fq = getattr(st.cur_func(), 'qualname', None)
    if h.kind == 'list':
        if meth == 'append' and len(args) == 1:
            h.items.append(args[0])
            return [('val', Const(None), st)]
        if meth == 'extend':
            it = iter_items(ip, args[0], st) if args else None
            if it is None:
                h.open = True
            else:
                h.items.extend(it)
            return [('val', Const(None), st)]
        if meth == 'reverse' and not args and not h.open:
            h.items.reverse()
            return [('val', Const(None), st)]
        if meth in ('index', 'count', 'copy'):
            return [('val', Opaque('%s.%s()' % (o.oid, meth)), st)]
        h.open = True
        return [('val', Opaque('%s.%s()' % (o.oid, meth)), st)]
    if meth == 'get' and args and isinstance(args[0], Const):
        try:
            if args[0].value in h.items:
                return [('val', h.items[args[0].value], st)]
        except TypeError:
            pass
        if not h.open:
            return [('val', args[1] if len(args) > 1 else Const(None), st)]
        v = Opaque('%s.get(%s)' % (o.oid, args[0].desc()))
        return [('val', v, st)]
    if meth in ('keys', 'values', 'items') and not h.open:
        lo = st.new_obj('list', hint='list')
        if meth == 'keys':
            st.heap[lo.oid].items = [Const(k) for k in h.items]
        elif meth == 'values':
            st.heap[lo.oid].items = list(h.items.values())
        else:
            st.heap[lo.oid].items = [TupleV([Const(k), v]) for k, v in h.items.items()]
        return [('val', lo, st)]
    if meth == 'pop' and args and isinstance(args[0], Const):
        try:
            if args[0].value in h.items:
                v = h.items.pop(args[0].value)
                st.writes.append((o.oid, 'pop[%s]' % args[0].desc(), v, line, fq))
                return [('val', v, st)]
        except TypeError:
            pass
    if meth in ('update', 'pop', 'clear', 'setdefault', 'popitem'):
        h.open = True
        st.writes.append((o.oid, meth, None, line, fq))
    return [('val', Opaque('%s.%s()' % (o.oid, meth)), st)]


def _p_len(ip, args, kwargs, st, line, node):
    v = args[0] if args else Opaque('?')
    if isinstance(v, Const):
        try:
            return [('val', Const(len(v.value)), st)]
        except Exception:
            pass
    if isinstance(v, TupleV):
        return [('val', Const(len(v.items)), st)]
    if isinstance(v, Obj) and not st.heap[v.oid].open and st.heap[v.oid].kind in ('list', 'dict'):
        return [('val', Const(len(st.heap[v.oid].items)), st)]
    name = 'len(%s)' % v.desc()
    if isinstance(v, BytesV):
        bl, bh = bytes_len(v, st)
        if bl == bh and bl != INF and all(p[0] in ('fix', 'lit') for p in v.parts):
            return [('val', Const(int(bl)), st)]
        # the parts of known size bound the length from below (a literal first octet => len >= 1)
        known = sum(len(p[1]) if p[0] == 'lit' else (p[1] if p[0] == 'fix' else 0) for p in v.parts)
        if known > 0:
            return [('val', mk_sym(st, name, known, INF, ('len', [v])), st)]
    if isinstance(v, SliceV):
        lo = v.lo.value if isinstance(v.lo, Const) else None
        lo = 0 if (isinstance(v.lo, Const) and v.lo.value is None) else lo
        if isinstance(lo, int) and lo >= 0 and isinstance(v.hi, Sym):
            hl, hh, _ = st.interval(v.hi.name)
            inb = st.atoms.get('len(%s) < %s' % (v.base.desc(), v.hi.name)) is False or \
                st.atoms.get('len(%s) >= %s' % (v.base.desc(), v.hi.name)) is True
            if inb and hl >= lo:
                return [('val', binop(ip, ast.Sub(), v.hi, Const(lo), st), st)]
            return [('val', mk_sym(st, name, 0, max(0, hh - lo), ('len', [v])), st)]
        if isinstance(lo, int) and lo >= 0 and isinstance(v.hi, Const) and isinstance(v.hi.value, int) \
                and v.hi.value >= 0:
            return [('val', mk_sym(st, name, 0, max(0, v.hi.value - lo), ('len', [v])), st)]
    return [('val', mk_sym(st, name, 0, INF, ('len', [v])), st)]


def bytes_len(v, st):
    """Interval [lo, hi] of the length of a bytes value."""
    if isinstance(v, Const) and isinstance(v.value, (bytes, str)):
        return (len(v.value), len(v.value))
    if isinstance(v, SliceV):
        bl, bh = bytes_len(v.base, st)

        def bound(x, default):
            if x is None or (isinstance(x, Const) and x.value is None):
                return (default, default)
            iv = ival(x, st)
            return iv if iv is not None else (0, INF)
        llo, lhi = bound(v.lo, 0)
        hlo, hhi = bound(v.hi, INF)
        if llo < 0 or hlo < 0:
            return (0, bh)
        # length = max(0, min(hi, len(base)) - lo)
        lo = max(0, min(hlo, bl) - lhi)
        hi = max(0, min(hhi, bh) - llo)
        return (lo, hi)
    if isinstance(v, BytesV):
        lo = hi = 0
        for p in v.parts:
            if p[0] == 'lit':
                lo += len(p[1])
                hi += len(p[1])
            elif p[0] == 'pack':
                n = fmt_size(p[1])
                if n is None:
                    hi = INF
                else:
                    lo += n
                    hi += n
            elif p[0] == 'opq':
                a, b = bytes_len(p[1], st)
                lo += a
                hi += b
            elif p[0] == 'fix':
                lo += p[1]
                hi += p[1]
            else:
                hi = INF
        return (lo, hi)
    if isinstance(v, V):
        name = 'len(%s)' % v.desc()
        if name in st.cons:
            lo, hi, _ = st.cons[name]
            return (max(0, lo), hi)
    return (0, INF)


def _p_struct_unpack(ip, args, kwargs, st, line, node):
    if len(args) >= 2 and isinstance(args[0], Const) and isinstance(args[0].value, str):
        fl = parse_fmt(args[0].value)
        need = fmt_size(args[0].value)
        if fl is not None and need is not None and getattr(ip, 'unpack_may_raise', False):
            lo, hi = bytes_len(args[1], st)
            if not (lo <= need <= hi):
                st.flags.add('short-unpack@%s' % getattr(st.cur_func(), 'qualname', '?'))
                return [('raise', Opaque('struct.error(unpack %s needs %d octets)' % (args[0].value, need)), st)]
            if (lo, hi) != (need, need):
                s2 = st.fork()
                ip._count()
                fq = getattr(st.cur_func(), 'qualname', None)
                s2.flags.add('short-unpack@%s' % (fq or '?'))
                s2.path.append(('len(%s) == %d' % (args[1].desc(), need), False, line, fq))
                st.path.append(('len(%s) == %d' % (args[1].desc(), need), True, line, fq))
                return _unpack_ok(ip, args, st, line, fl) + \
                    [('raise', Opaque('struct.error(unpack %s needs %d octets)' % (args[0].value, need)), s2)]
        if fl is not None:
            return _unpack_ok(ip, args, st, line, fl)
    return [('val', Opaque('struct.unpack(%s)' % ', '.join(a.desc() for a in args)), st)]


def _unpack_ok(ip, args, st, line, fl):
    if isinstance(args[0], Const) and isinstance(args[1], Const) and isinstance(args[1].value, bytes):
        try:
            return [('val', Const(_struct.unpack(args[0].value, args[1].value)), st)]
        except Exception:
            return [('raise', Opaque('struct.error'), st)]
    if True:
        if True:
            st.counter += 1
            base = 'unpack%d@%s' % (st.counter, line)
            items = []
            fq = getattr(st.cur_func(), 'qualname', None)
            for i, (code, n) in enumerate(fl):
                nm = '%s.%d' % (base, i)
                st.syminfo[nm] = (args[0].value, i, fq, line)
                if code in UNSIGNED:
                    items.append(mk_sym(st, nm, UNSIGNED[code][0], UNSIGNED[code][1],
                                        ('unpack', [args[0], args[1], Const(i)])))
                elif code in SIGNED:
                    items.append(mk_sym(st, nm, SIGNED[code][0], SIGNED[code][1],
                                        ('unpack', [args[0], args[1], Const(i)])))
                else:
                    items.append(Opaque(nm, 'bytes'))
            return [('val', TupleV(items), st)]


def _p_struct_pack(ip, args, kwargs, st, line, node):
    if args and isinstance(args[0], Const) and isinstance(args[0].value, str):
        return [('val', BytesV([('pack', args[0].value, list(args[1:]), line,
                                 getattr(st.cur_func(), 'qualname', None))]), st)]
    return [('val', BytesV([('packdyn', args[0] if args else None, list(args[1:]), line,
                             getattr(st.cur_func(), 'qualname', None))]), st)]


def _p_minmax(which):
    def h(ip, args, kwargs, st, line, node):
        if len(args) >= 2:
            ivs = [ival(a, st) for a in args]
            if all(isinstance(a, Const) for a in args):
                try:
                    return [('val', Const(which(a.value for a in args)), st)]
                except Exception:
                    pass
            nm = '%s(%s)' % (which.__name__, ', '.join(a.desc() for a in args))
            if all(i is not None for i in ivs):
                lo = which(i[0] for i in ivs)
                hi = which(i[1] for i in ivs)
                return [('val', mk_sym(st, nm, lo, hi, (which.__name__, list(args))), st)]
            return [('val', mk_sym(st, nm, -INF, INF, (which.__name__, list(args))), st)]
        return [('val', Opaque('%s(...)' % which.__name__), st)]
    return h


def _p_int(ip, args, kwargs, st, line, node):
    if args and isinstance(args[0], Const):
        try:
            return [('val', Const(int(args[0].value, *[a.value for a in args[1:]])), st)]
        except Exception:
            return [('raise', Opaque('ValueError(int)'), st)]
    if args and isinstance(args[0], Sym) and len(args) == 1:
        lo, hi, _ = st.interval(args[0].name)
        import math
        flo = lo if lo in (INF, -INF) else math.trunc(lo)
        fhi = hi if hi in (INF, -INF) else math.trunc(hi)
        return [('val', mk_sym(st, 'int(%s)' % args[0].name, flo, fhi, ('int', [args[0]])), st)]
    return [('val', mk_sym(st, 'int(%s)' % ', '.join(a.desc() for a in args), -INF, INF,
                           ('int', list(args))), st)]


def _p_simple(name, kind=None):
    def h(ip, args, kwargs, st, line, node):
        if all(isinstance(a, Const) for a in args) and name in ('str', 'repr', 'bool', 'float', 'hex',
                                                                'chr', 'abs', 'tuple', 'bytes'):
            try:
                return [('val', Const(getattr(__import__('builtins'), name)(*[a.value for a in args])), st)]
            except Exception:
                pass
        return [('val', Opaque('%s(%s)' % (name, ', '.join(a.desc() for a in args)), kind), st)]
    return h


def _p_ord(ip, args, kwargs, st, line, node):
    if args and isinstance(args[0], Const):
        try:
            return [('val', Const(ord(args[0].value)), st)]
        except Exception:
            return [('raise', Opaque('TypeError(ord)'), st)]
    nm = 'ord(%s)' % (args[0].desc() if args else '')
    if args and isinstance(args[0], (BytesV, SliceV)):
        bl, bh = bytes_len(args[0], st)
        if bh < 1 or bl > 1:
            return [('raise', Opaque('TypeError(ord() expected a character, got length %s)' % bl), st)]
    return [('val', mk_sym(st, nm, 0, 255, ('ord', list(args))), st)]


def _p_isinstance(ip, args, kwargs, st, line, node):
    if len(args) == 2:
        v, t = args
        tn = t.desc()
        if isinstance(v, Const):
            m = {'builtin:int': int, 'builtin:str': str, 'builtin:float': float, 'builtin:bytes': bytes,
                 'builtin:dict': dict, 'builtin:list': list, 'builtin:tuple': tuple, 'builtin:bool': bool}
            if tn in m:
                return [('val', Const(isinstance(v.value, m[tn])), st)]
        if isinstance(v, Sym):
            if tn == 'builtin:int':
                return [('val', Const(True), st)]
            if tn in ('builtin:float', 'builtin:str', 'builtin:dict', 'builtin:list', 'builtin:bytes'):
                return [('val', Const(False), st)]
        if isinstance(v, Obj):
            h = st.heap[v.oid]
            if h.kind == 'dict':
                return [('val', Const(tn == 'builtin:dict'), st)]
            if h.kind == 'list':
                return [('val', Const(tn == 'builtin:list'), st)]
            if isinstance(t, ClassV) and isinstance(h.cls, ClassInfo):
                return [('val', Const(h.cls.is_subclass_of(t.cinfo.qualname)), st)]
        if is_bytes(v) and tn in ('builtin:int', 'builtin:str', 'builtin:dict', 'builtin:list',
                                  'builtin:float'):
            return [('val', Const(False), st)]
        key = 'isinstance(%s, %s)' % (v.desc(), tn)
        return [('val', Const(r), s) for r, s in _fork_atom(ip, st, key, line)]
    return [('val', Opaque('isinstance(?)'), st)]


def _p_getattr(ip, args, kwargs, st, line, node):
    if len(args) >= 2 and isinstance(args[1], Const) and isinstance(args[1].value, str):
        return ip.get_attr(args[0], args[1].value, st, node)
    return [('val', Opaque('getattr(%s)' % ', '.join(a.desc() for a in args)), st)]


def _p_super(ip, args, kwargs, st, line, node):
    if len(args) == 2 and isinstance(args[0], ClassV):
        return [('val', SuperV(args[0].cinfo, args[1]), st)]
    f = st.cur_func()
    if not args and f is not None and f.cls is not None and f.params:
        return [('val', SuperV(f.cls, st.env.get(f.params[0])), st)]
    return [('val', Opaque('super(?)'), st)]


def _p_list(ip, args, kwargs, st, line, node):
    o = st.new_obj('list', hint='list')
    if args:
        it = iter_items(ip, args[0], st)
        if it is None:
            st.heap[o.oid].open = True
        else:
            st.heap[o.oid].items = it
    return [('val', o, st)]


def _p_dict(ip, args, kwargs, st, line, node):
    o = st.new_obj('dict', hint='dict')
    if args:
        st.heap[o.oid].open = True
    for k, v in kwargs.items():
        st.heap[o.oid].items[k] = v
    return [('val', o, st)]


def _p_range(ip, args, kwargs, st, line, node):
    if all(isinstance(a, Const) for a in args):
        try:
            return [('val', Const(tuple(range(*[a.value for a in args]))), st)]
        except Exception:
            pass
    return [('val', Opaque('range(%s)' % ', '.join(a.desc() for a in args)), st)]


def _p_time(ip, args, kwargs, st, line, node):
    return [('val', Opaque('time.time()'), st)]


def _p_ceil(ip, args, kwargs, st, line, node):
    import math
    if args and isinstance(args[0], Const):
        return [('val', Const(math.ceil(args[0].value)), st)]
    iv = ival(args[0], st) if args else None
    if iv is not None:
        lo = iv[0] if iv[0] in (INF, -INF) else math.ceil(iv[0])
        hi = iv[1] if iv[1] in (INF, -INF) else math.ceil(iv[1])
        return [('val', mk_sym(st, 'ceil(%s)' % args[0].desc(), lo, hi, ('ceil', list(args))), st)]
    return [('val', Opaque('ceil(?)'), st)]


def _p_b2a_hex(ip, args, kwargs, st, line, node):
    if getattr(ip, 'record_hexlify', False):
        st.actions.append(Action('call', 'binascii', 'b2a_hex', args, None, line,
                                 getattr(st.cur_func(), 'qualname', None)))
    if args and bytes_len(args[0], st) == (0, 0):
        return [('val', Const(b''), st)]
    return [('val', Opaque('b2a_hex(%s)' % ', '.join(a.desc() for a in args), 'bytes'), st)]


def _p_divmod(ip, args, kwargs, st, line, node):
    if len(args) != 2:
        return [('val', Opaque('divmod(?)'), st)]
    a, b = args
    return [('val', TupleV([binop(ip, ast.FloorDiv(), a, b, st, node), binop(ip, ast.Mod(), a, b, st, node)]), st)]


_EXT = {
    'divmod': _p_divmod,
    'len': _p_len, 'struct.unpack': _p_struct_unpack, 'struct.pack': _p_struct_pack,
    'min': _p_minmax(min), 'max': _p_minmax(max), 'int': _p_int, 'ord': _p_ord,
    'str': _p_simple('str', 'str'), 'repr': _p_simple('repr', 'str'), 'bool': _p_simple('bool'),
    'float': _p_simple('float'), 'hex': _p_simple('hex', 'str'), 'chr': _p_simple('chr', 'str'),
    'abs': _p_simple('abs'), 'tuple': _p_simple('tuple'), 'bytes': _p_simple('bytes', 'bytes'),
    'isinstance': _p_isinstance, 'getattr': _p_getattr, 'super': _p_super,
    'list': _p_list, 'dict': _p_dict, 'range': _p_range, 'time.time': _p_time,
    'math.ceil': _p_ceil, 'binascii.b2a_hex': _p_b2a_hex, 'binascii.hexlify': _p_b2a_hex,
    'type': _p_simple('type'), 'sorted': _p_simple('sorted'), 'set': _p_simple('set'),
}
