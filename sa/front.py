"""Front end: the resolved program.

Parses every module of the shipped package (tests excluded), builds the module /
class / function model, resolves imports and folds constants.  Pure `ast`; yabgp is
never imported.
"""
import ast
import os
import hashlib

REPO = os.environ.get('YABGP_REPO', '/repo')
PKG = 'yabgp'


class NotConst(Exception):
    pass


class AnalysisError(Exception):
    """The analysis met something outside its vocabulary (exit 2, never a violation)."""


class FuncInfo(object):
    def __init__(self, name, node, module, cls=None):
        self.name = name
        self.node = node
        self.module = module
        self.cls = cls
        self.kind = 'function'
        self.decorators = list(node.decorator_list)
        for d in node.decorator_list:
            if isinstance(d, ast.Name) and d.id in ('classmethod', 'staticmethod', 'property'):
                self.kind = d.id
        if cls is not None and self.kind == 'function':
            self.kind = 'method'
        self.qualname = (cls.qualname + '.' + name) if cls else (module.name + '.' + name)
        self.params = [a.arg for a in node.args.args]

    @property
    def file(self):
        return self.module.relpath

    def __repr__(self):
        return '<Func %s>' % self.qualname


class ClassInfo(object):
    def __init__(self, name, node, module):
        self.name = name
        self.node = node
        self.module = module
        self.qualname = module.name + '.' + name
        self.methods = {}
        self.attrs = {}      # name -> ast expr (class-level assignments)
        self.attr_lines = {}
        self.base_exprs = list(node.bases)
        self.bases = []      # resolved ClassInfo or str (external)
        for st in node.body:
            if isinstance(st, (ast.FunctionDef, ast.AsyncFunctionDef)):
                self.methods[st.name] = FuncInfo(st.name, st, module, self)
            elif isinstance(st, ast.Assign):
                for t in st.targets:
                    if isinstance(t, ast.Name):
                        self.attrs[t.id] = st.value
                        self.attr_lines[t.id] = st.lineno

    def mro(self):
        out, seen = [], set()

        def walk(c):
            if isinstance(c, ClassInfo) and c.qualname not in seen:
                seen.add(c.qualname)
                out.append(c)
                for b in c.bases:
                    walk(b)
        walk(self)
        return out

    def external_bases(self):
        out = []
        for c in self.mro():
            for b in c.bases:
                if not isinstance(b, ClassInfo):
                    out.append(b)
        return out

    def find_method(self, name):
        for c in self.mro():
            if name in c.methods:
                return c.methods[name]
        return None

    def find_attr(self, name):
        for c in self.mro():
            if name in c.attrs:
                return c, c.attrs[name]
        return None, None

    def is_subclass_of(self, qual_or_name):
        for c in self.mro():
            if c.qualname == qual_or_name or c.name == qual_or_name:
                return True
        return qual_or_name in self.external_bases()

    def __repr__(self):
        return '<Class %s>' % self.qualname


class Module(object):
    def __init__(self, name, path, relpath, src):
        self.name = name
        self.path = path
        self.relpath = relpath
        self.src = src
        self.tree = ast.parse(src, filename=path)
        self.imports = {}    # local name -> ('module', modname) | ('symbol', modname, symbol)
        self.classes = {}
        self.functions = {}
        self.assigns = {}    # module-level name -> ast expr (last assignment)
        self.assign_lines = {}
        self.updates = {}    # id(initialiser expr) -> [argument of NAME.update(...) at module level]
        self.is_pkg = path.endswith('__init__.py')
        self._scan()

    def _scan(self):
        for st in self.tree.body:
            self._scan_stmt(st)

    def _scan_stmt(self, st):
        if isinstance(st, ast.Import):
            for a in st.names:
                if a.asname:
                    self.imports[a.asname] = ('module', a.name)
                else:
                    self.imports[a.name.split('.')[0]] = ('module', a.name.split('.')[0])
        elif isinstance(st, ast.ImportFrom):
            base = st.module or ''
            if st.level:
                parts = self.name.split('.')
                if not self.is_pkg:
                    parts = parts[:-1]
                parts = parts[:len(parts) - (st.level - 1)]
                base = '.'.join(parts + ([st.module] if st.module else []))
            for a in st.names:
                self.imports[a.asname or a.name] = ('symbol', base, a.name)
        elif isinstance(st, ast.ClassDef):
            self.classes[st.name] = ClassInfo(st.name, st, self)
        elif isinstance(st, (ast.FunctionDef, ast.AsyncFunctionDef)):
            self.functions[st.name] = FuncInfo(st.name, st, self)
        elif isinstance(st, ast.Assign):
            for t in st.targets:
                if isinstance(t, ast.Name):
                    self.assigns[t.id] = st.value
                    self.assign_lines[t.id] = st.lineno
        elif isinstance(st, ast.Expr) and isinstance(st.value, ast.Call) and isinstance(st.value.func, ast.Attribute) \
                and isinstance(st.value.func.value, ast.Name) and st.value.func.attr == 'update' \
                and st.value.func.value.id in self.assigns and len(st.value.args) == 1 and not st.value.keywords:
            # TABLE.update(<pairs or dict>) at module level, after TABLE = {...}: part of the table's definition
            self.updates.setdefault(id(self.assigns[st.value.func.value.id]), []).append(st.value.args[0])
        elif isinstance(st, (ast.If, ast.Try)):
            for sub in ast.iter_child_nodes(st):
                if isinstance(sub, ast.stmt):
                    self._scan_stmt(sub)

    def __repr__(self):
        return '<Module %s>' % self.name


class External(object):
    """A name that resolves outside the package (stdlib / third party)."""

    def __init__(self, dotted):
        self.dotted = dotted

    def __repr__(self):
        return '<External %s>' % self.dotted

    def __eq__(self, other):
        return isinstance(other, External) and other.dotted == self.dotted

    def __hash__(self):
        return hash(self.dotted)


class Program(object):
    def __init__(self, repo=None):
        self.repo = repo or REPO
        self.modules = {}
        self.by_relpath = {}
        self._fold_cache = {}
        self._load()
        self._link()

    # ------------------------------------------------------------------ loading
    def _load(self):
        root = os.path.join(self.repo, PKG)
        if not os.path.isdir(root):
            raise AnalysisError('package directory %s missing' % root)
        for dirpath, dirnames, filenames in os.walk(root):
            dirnames[:] = sorted(d for d in dirnames if d not in ('tests', '__pycache__'))
            for fn in sorted(filenames):
                if not fn.endswith('.py'):
                    continue
                path = os.path.join(dirpath, fn)
                rel = os.path.relpath(path, self.repo)
                modname = rel[:-3].replace(os.sep, '.')
                if modname.endswith('.__init__'):
                    modname = modname[:-9]
                with open(path, 'rb') as f:
                    raw = f.read()
                try:
                    src = raw.decode('utf-8')
                    m = Module(modname, path, rel, src)
                except SyntaxError as e:
                    raise AnalysisError('cannot parse %s: %s' % (rel, e))
                self.modules[modname] = m
                self.by_relpath[rel] = m

    def digest(self):
        h = hashlib.sha256()
        for name in sorted(self.modules):
            h.update(name.encode())
            h.update(self.modules[name].src.encode())
        return h.hexdigest()[:16]

    def _link(self):
        for m in self.modules.values():
            for c in m.classes.values():
                c.bases = []
                for b in c.base_exprs:
                    r = self.resolve_expr(b, m)
                    if isinstance(r, ClassInfo):
                        c.bases.append(r)
                    elif isinstance(r, External):
                        c.bases.append(r.dotted)
                    else:
                        try:
                            c.bases.append(ast.unparse(b))
                        except Exception:
                            c.bases.append('?')

    # ------------------------------------------------------------------ lookup
    def module(self, name):
        return self.modules.get(name)

    def file(self, relpath):
        m = self.by_relpath.get(relpath)
        if m is None:
            raise AnalysisError('anchor file %s vanished' % relpath)
        return m

    def cls(self, qualname):
        mod, _, name = qualname.rpartition('.')
        m = self.modules.get(mod)
        if m is None or name not in m.classes:
            raise AnalysisError('anchor class %s vanished' % qualname)
        return m.classes[name]

    def func(self, qualname):
        """'yabgp.core.fsm.FSM.manual_stop' or 'yabgp.api.utils.send_update'."""
        parts = qualname.split('.')
        for i in range(len(parts) - 1, 0, -1):
            mod = '.'.join(parts[:i])
            if mod in self.modules:
                m = self.modules[mod]
                rest = parts[i:]
                if len(rest) == 1 and rest[0] in m.functions:
                    return m.functions[rest[0]]
                if len(rest) == 2 and rest[0] in m.classes:
                    f = m.classes[rest[0]].find_method(rest[1])
                    if f is not None:
                        return f
        raise AnalysisError('anchor function %s vanished' % qualname)

    def has_func(self, qualname):
        try:
            self.func(qualname)
            return True
        except AnalysisError:
            return False

    def all_functions(self):
        for m in self.modules.values():
            for f in m.functions.values():
                yield f
            for c in m.classes.values():
                for f in c.methods.values():
                    yield f

    def all_classes(self):
        for m in self.modules.values():
            for c in m.classes.values():
                yield c

    def subclasses(self, base):
        return [c for c in self.all_classes() if c is not base and base in c.mro()]

    # ------------------------------------------------------------------ name resolution
    def resolve_name(self, name, module, _depth=0):
        """Resolve a bare name in module scope -> Module | ClassInfo | FuncInfo |
        ('assign', module, expr) | External | None."""
        if _depth > 12:
            return None
        if name in module.classes:
            return module.classes[name]
        if name in module.functions:
            return module.functions[name]
        if name in module.assigns:
            return ('assign', module, module.assigns[name])
        if name in module.imports:
            imp = module.imports[name]
            if imp[0] == 'module':
                tgt = self.modules.get(imp[1])
                return tgt if tgt is not None else External(imp[1])
            base, sym = imp[1], imp[2]
            sub = self.modules.get(base + '.' + sym)
            tgt = self.modules.get(base)
            if tgt is not None:
                r = self.resolve_name(sym, tgt, _depth + 1)
                if r is not None:
                    return r
            if sub is not None:
                return sub
            if tgt is None:
                return External(base + '.' + sym)
            return None
        return None

    def resolve_expr(self, expr, module, cls=None):
        """Resolve Name / dotted Attribute chains to program entities."""
        if isinstance(expr, ast.Name):
            if cls is not None and expr.id == 'cls':
                return cls
            return self.resolve_name(expr.id, module)
        if isinstance(expr, ast.Attribute):
            base = self.resolve_expr(expr.value, module, cls)
            return self.resolve_member(base, expr.attr)
        return None

    def resolve_member(self, base, attr):
        if isinstance(base, Module):
            r = self.resolve_name(attr, base)
            if r is None:
                sub = self.modules.get(base.name + '.' + attr)
                return sub
            return r
        if isinstance(base, ClassInfo):
            f = base.find_method(attr)
            if f is not None:
                return f
            c, e = base.find_attr(attr)
            if e is not None:
                return ('classattr', c, e)
            return None
        if isinstance(base, External):
            return External(base.dotted + '.' + attr)
        if isinstance(base, tuple) and base[0] in ('assign', 'classattr'):
            # e.g. CONF = cfg.CONF ; follow the alias
            owner, e = base[1], base[2]
            if isinstance(owner, ClassInfo):
                r = self.resolve_expr(e, owner.module, owner)
            else:
                r = self.resolve_expr(e, owner)
            if r is not None:
                return self.resolve_member(r, attr)
        return None

    # ------------------------------------------------------------------ registries
    _MUTATORS = ('append', 'update', 'pop', 'clear', 'setdefault', 'extend', 'insert', 'remove', 'add', 'discard',
                 'popitem', '__setitem__')

    def mutated_containers(self):
        """ids of the initialiser expressions of module- / class-level containers that some code in the program
        fills or changes afterwards (registries filled by decorators, caches): their initial literal says
        nothing about their content when a function runs, so they must not be folded to a constant."""
        if getattr(self, '_mutated', None) is not None:
            return self._mutated
        names = set()
        for f in self.all_functions():
            for n in ast.walk(f.node):
                t = None
                if isinstance(n, (ast.Assign, ast.AugAssign, ast.Delete)):
                    tg = n.targets if not isinstance(n, ast.AugAssign) else [n.target]
                    for x in tg:
                        if isinstance(x, ast.Subscript):
                            t = x.value
                            if isinstance(t, ast.Attribute):
                                names.add(t.attr)
                            elif isinstance(t, ast.Name):
                                names.add(t.id)
                elif isinstance(n, ast.Call) and isinstance(n.func, ast.Attribute) and n.func.attr in self._MUTATORS:
                    t = n.func.value
                    if isinstance(t, ast.Attribute):
                        names.add(t.attr)
                    elif isinstance(t, ast.Name):
                        names.add(t.id)
        out = set()

        def is_container(e):
            return isinstance(e, (ast.Dict, ast.List, ast.Set)) or \
                (isinstance(e, ast.Call) and isinstance(e.func, ast.Name) and e.func.id in ('dict', 'list', 'set')
                 and not e.args and not e.keywords)
        for m in self.modules.values():
            for name, e in m.assigns.items():
                if name in names and is_container(e):
                    out.add(id(e))
            for c in m.classes.values():
                for name, e in c.attrs.items():
                    if name in names and is_container(e):
                        out.add(id(e))
        self._mutated = out
        return out

    def registered_never_none(self, meth, owner=None):
        """Does the method `meth` of every class registered through a `@<Owner>.register(...)` decorator return a
        value on every path (never None, explicitly or by falling off the end)?  Such a method, called through a
        registry (`Owner.registered_tlvs[code].unpack(...)`), yields a typed opaque object."""
        cache = self.__dict__.setdefault('_rnn', {})
        ckey = (meth, owner)
        if ckey in cache:
            return cache[ckey]

        def leaves(stmts):
            for st in stmts:
                if isinstance(st, (ast.Return, ast.Raise)):
                    return True
                if isinstance(st, ast.If) and st.orelse and leaves(st.body) and leaves(st.orelse):
                    return True
                if isinstance(st, ast.Try) and leaves(st.body) and all(leaves(h.body) for h in st.handlers):
                    return True
            return False
        n = 0
        ok = True
        for m in self.modules.values():
            for c in m.classes.values():
                if not any(isinstance(d, ast.Call) and isinstance(d.func, ast.Attribute) and d.func.attr == 'register'
                           and (owner is None or src_of(d.func.value).split('.')[-1] == owner)
                           for d in c.node.decorator_list):
                    continue
                f = c.find_method(meth)
                if f is None:
                    continue        # the call raises AttributeError: no value at all, in particular not None
                n += 1
                if not leaves(f.node.body):
                    ok = False
                for r in ast.walk(f.node):
                    if isinstance(r, ast.Return) and not isinstance(
                            r.value, (ast.Call, ast.Dict, ast.List, ast.Tuple, ast.BinOp, ast.JoinedStr, ast.DictComp,
                                      ast.ListComp)):
                        ok = False
        cache[ckey] = ok and n > 0
        return cache[ckey]

    # ------------------------------------------------------------------ constant folding
    def fold(self, expr, module, cls=None, env=None, _depth=0, _updates=True):
        """Fold an expression to a Python value or raise NotConst."""
        if _depth > 40:
            raise NotConst('depth')
        ups = getattr(module, 'updates', None)
        if _updates and ups and id(expr) in ups:
            # the initialiser of a module-level table that later statements complete with TABLE.update(...)
            v = self.fold(expr, module, cls, env, _depth + 1, _updates=False)
            if not isinstance(v, dict):
                raise NotConst('update of a non-dict')
            v = dict(v)
            for u in ups[id(expr)]:
                try:
                    v.update(self.fold(u, module, None, None, _depth + 1))
                except NotConst:
                    raise
                except Exception as e:
                    raise NotConst('update: %s' % e)
            return v
        f = lambda e: self.fold(e, module, cls, env, _depth + 1)
        if isinstance(expr, ast.Constant):
            return expr.value
        if isinstance(expr, ast.Name):
            if env is not None and expr.id in env:
                return env[expr.id]
            if expr.id in ('True', 'False', 'None'):
                return {'True': True, 'False': False, 'None': None}[expr.id]
            if cls is not None and expr.id in cls.attrs and False:
                pass
            r = self.resolve_name(expr.id, module)
            return self._fold_entity(r, _depth)
        if isinstance(expr, ast.Attribute):
            r = self.resolve_expr(expr, module, cls)
            if r is None:
                raise NotConst(ast.dump(expr))
            return self._fold_entity(r, _depth)
        if isinstance(expr, ast.BinOp):
            a, b = f(expr.left), f(expr.right)
            try:
                return _BINOPS[type(expr.op)](a, b)
            except KeyError:
                raise NotConst('op')
            except Exception as e:
                raise NotConst(str(e))
        if isinstance(expr, ast.UnaryOp):
            a = f(expr.operand)
            try:
                return _UNOPS[type(expr.op)](a)
            except Exception as e:
                raise NotConst(str(e))
        if isinstance(expr, ast.Tuple):
            return tuple(f(e) for e in expr.elts)
        if isinstance(expr, ast.List):
            return [f(e) for e in expr.elts]
        if isinstance(expr, ast.Set):
            return set(f(e) for e in expr.elts)
        if isinstance(expr, ast.Dict):
            out = {}
            for k, v in zip(expr.keys, expr.values):
                if k is None:
                    out.update(f(v))
                else:
                    kk = f(k)
                    try:
                        out[kk] = f(v)
                    except TypeError:
                        raise NotConst('unhashable')
            return out
        if isinstance(expr, ast.Subscript):
            base = f(expr.value)
            sl = expr.slice
            if isinstance(sl, ast.Slice):
                lo = f(sl.lower) if sl.lower else None
                hi = f(sl.upper) if sl.upper else None
                st = f(sl.step) if sl.step else None
                return base[lo:hi:st]
            try:
                return base[f(sl)]
            except Exception as e:
                raise NotConst(str(e))
        if isinstance(expr, ast.DictComp) and len(expr.generators) == 1:
            g = expr.generators[0]
            it = f(g.iter)
            out = {}
            for item in it:
                e2 = dict(env or {})
                self._bind(g.target, item, e2)
                ok = True
                for cond in g.ifs:
                    if not self.fold(cond, module, cls, e2, _depth + 1):
                        ok = False
                if ok:
                    out[self.fold(expr.key, module, cls, e2, _depth + 1)] = \
                        self.fold(expr.value, module, cls, e2, _depth + 1)
            return out
        if isinstance(expr, (ast.ListComp, ast.SetComp, ast.GeneratorExp)) and len(expr.generators) == 1:
            g = expr.generators[0]
            it = f(g.iter)
            out = []
            for item in it:
                e2 = dict(env or {})
                self._bind(g.target, item, e2)
                if all(self.fold(c, module, cls, e2, _depth + 1) for c in g.ifs):
                    out.append(self.fold(expr.elt, module, cls, e2, _depth + 1))
            return out if not isinstance(expr, ast.SetComp) else set(out)
        if isinstance(expr, ast.Call):
            if isinstance(expr.func, ast.Name) and expr.func.id in _SAFE_CALLS and not expr.keywords:
                args = [f(a) for a in expr.args]
                try:
                    return _SAFE_CALLS[expr.func.id](*args)
                except Exception as e:
                    raise NotConst(str(e))
            if isinstance(expr.func, ast.Attribute) and expr.func.attr in ('items', 'keys', 'values') \
                    and not expr.args:
                base = f(expr.func.value)
                if isinstance(base, dict):
                    return list(getattr(base, expr.func.attr)())
            if isinstance(expr.func, ast.Attribute) and expr.func.attr in ('upper', 'lower') \
                    and not expr.args:
                base = f(expr.func.value)
                if isinstance(base, str):
                    return getattr(base, expr.func.attr)()
            raise NotConst('call')
        if isinstance(expr, ast.Compare) and len(expr.ops) == 1:
            a, b = f(expr.left), f(expr.comparators[0])
            try:
                return _CMPOPS[type(expr.ops[0])](a, b)
            except Exception as e:
                raise NotConst(str(e))
        if isinstance(expr, ast.BoolOp):
            vals = [f(v) for v in expr.values]
            if isinstance(expr.op, ast.And):
                r = True
                for v in vals:
                    r = r and v
                return r
            r = False
            for v in vals:
                r = r or v
            return r
        if isinstance(expr, ast.IfExp):
            return f(expr.body) if f(expr.test) else f(expr.orelse)
        raise NotConst(type(expr).__name__)

    def _bind(self, target, value, env):
        if isinstance(target, ast.Name):
            env[target.id] = value
        elif isinstance(target, (ast.Tuple, ast.List)):
            vals = list(value)
            if len(vals) != len(target.elts):
                raise NotConst('unpack')
            for t, v in zip(target.elts, vals):
                self._bind(t, v, env)
        else:
            raise NotConst('bind')

    def _fold_entity(self, r, _depth):
        if isinstance(r, tuple) and r[0] == 'assign':
            key = ('m', r[1].name, id(r[2]))
            if key not in self._fold_cache:
                self._fold_cache[key] = self.fold(r[2], r[1], None, None, _depth + 1)
            return self._fold_cache[key]
        if isinstance(r, tuple) and r[0] == 'classattr':
            key = ('c', r[1].qualname, id(r[2]))
            if key not in self._fold_cache:
                self._fold_cache[key] = self.fold(r[2], r[1].module, r[1], None, _depth + 1)
            return self._fold_cache[key]
        raise NotConst('entity %r' % (r,))

    def try_fold(self, expr, module, cls=None, env=None, default=None):
        try:
            return self.fold(expr, module, cls, env)
        except NotConst:
            return default
        except RecursionError:
            return default

    def class_const(self, cls, name):
        c, e = cls.find_attr(name)
        if e is None:
            raise NotConst('%s.%s' % (cls.qualname, name))
        return self.fold(e, c.module, c)


import operator
_BINOPS = {
    ast.Add: operator.add, ast.Sub: operator.sub, ast.Mult: operator.mul,
    ast.Div: operator.truediv, ast.FloorDiv: operator.floordiv, ast.Mod: operator.mod,
    ast.LShift: operator.lshift, ast.RShift: operator.rshift, ast.BitOr: operator.or_,
    ast.BitAnd: operator.and_, ast.BitXor: operator.xor, ast.Pow: operator.pow,
}
_UNOPS = {ast.USub: operator.neg, ast.UAdd: operator.pos, ast.Not: operator.not_,
          ast.Invert: operator.invert}
_CMPOPS = {
    ast.Eq: operator.eq, ast.NotEq: operator.ne, ast.Lt: operator.lt, ast.LtE: operator.le,
    ast.Gt: operator.gt, ast.GtE: operator.ge, ast.In: lambda a, b: a in b,
    ast.NotIn: lambda a, b: a not in b, ast.Is: operator.is_, ast.IsNot: operator.is_not,
}
_SAFE_CALLS = {'range': lambda *a: list(range(*a)), 'list': list, 'tuple': tuple, 'dict': dict,
               'len': len, 'int': int, 'str': str, 'set': set, 'sorted': sorted, 'frozenset': frozenset,
               'min': min, 'max': max, 'bytes': bytes, 'hex': hex, 'chr': chr, 'ord': ord,
               'float': float, 'bool': bool, 'abs': abs}


def src_of(node):
    try:
        return ast.unparse(node)
    except Exception:
        return '<%s>' % type(node).__name__


def norm_stmt(node):
    """Normalised statement text: the key used by known findings (never line numbers)."""
    return ' '.join(src_of(node).split())


_PROGRAM = None


def program():
    global _PROGRAM
    if _PROGRAM is None:
        _PROGRAM = Program()
    return _PROGRAM
