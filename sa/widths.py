"""Prefix width functions: finite partition over the prefix length.

For each prefix encoder the function is abstractly interpreted once per prefix length
m in 0..maxlen with m the only concrete input (addresses stay opaque); the number of address
octets emitted must be ceil(m / 8).  The interpreter is the checker's own; yabgp is not run.
"""
import math

from .front import AnalysisError
from .values import Const, Opaque, Obj, ClassV, FuncV, BytesV, State, INF
from .interp import Interp
from . import prims
from .prims import SliceV


def _interp(prog):
    ip = Interp(prog, max_paths=4000)
    ip.while_unroll = 1
    return ip


def addr_octets(v, st, header):
    """Number of octets of the returned byte string minus `header` fixed octets, as an interval."""
    lo, hi = prims.bytes_len(v, st)
    return (lo - header, hi - header)


def unsliced_packed(v):
    if isinstance(v, BytesV):
        return any(p[0] == 'opq' and isinstance(p[1], Opaque) and not isinstance(p[1], SliceV)
                   and p[1].d.endswith('.packed') for p in v.parts)
    return isinstance(v, Opaque) and not isinstance(v, SliceV) and v.d.endswith('.packed')


def fullwidth_problem(v):
    """The address bytes must come from a value of provably full width (struct.pack / .packed);
    hex()[2:] + unhexlify drops leading zero octets."""
    def walk(x):
        if isinstance(x, BytesV):
            for p in x.parts:
                if p[0] == 'opq':
                    r = walk(p[1])
                    if r:
                        return r
                if p[0] == 'fix' and ('hex(' in p[2] and 'unhexlify' in p[2]):
                    return p[2]
        if isinstance(x, SliceV):
            return walk(x.base)
        if isinstance(x, Opaque) and 'unhexlify' in x.d and 'hex(' in x.d:
            return x.d
        return None
    return walk(v)


def evaluate(prog, qual, build_args, maxlen, header, self_cls=None):
    """-> list of (m, status, text); status ok|bad|raise|unknown."""
    f = prog.func(qual)
    out = []
    for m in range(0, maxlen + 1):
        ip = _interp(prog)
        st = State()
        st.frames.append({})
        args, kwargs = build_args(m, st)
        selfv = None
        if f.kind == 'classmethod':
            selfv = ClassV(self_cls or f.cls)
        elif f.kind == 'method':
            selfv = st.new_obj('inst', self_cls or f.cls, hint='self')
        res = ip.call_func(FuncV(f, selfv), args, kwargs, st)
        want = int(math.ceil(m / 8.0))
        verdicts = []
        for k, v, s in res:
            if k == 'raise':
                verdicts.append(('raise', 'raises %s' % (v.desc() if hasattr(v, 'desc') else v)))
                continue
            if 'loop-abstracted' in s.flags and not isinstance(v, (BytesV, Const)):
                continue
            lo, hi = addr_octets(v, s, header)
            if hi == INF and lo <= want and unsliced_packed(v) and want == maxlen // 8:
                verdicts.append(('ok', 'whole packed address (%d octets for this family)' % want))
                continue
            if (lo, hi) == (want, want):
                verdicts.append(('ok', '%d octets' % want))
            elif lo == hi:
                verdicts.append(('bad', 'emits %d address octet(s), expected %d' % (lo, want)))
            elif lo <= want <= hi and hi != INF:
                # slice of an opaque address with constant bound: length = min(bound, len(address))
                verdicts.append(('assume', 'emits min(%d, len(address)) octets' % hi if hi == want else
                                 'emits between %s and %s octets' % (lo, hi)))
                if hi != want:
                    verdicts[-1] = ('bad', 'emits up to %s address octets, expected %d' % (hi, want))
            else:
                verdicts.append(('bad', 'emits %s..%s address octets, expected %d' % (lo, hi, want)))
            fw = fullwidth_problem(v)
            if fw:
                verdicts.append(('bad', 'address bytes come from %s, which drops leading zero octets' % fw[:80]))
        if not verdicts:
            out.append((m, 'unknown', 'no path'))
            continue
        bads = [t for s_, t in verdicts if s_ == 'bad']
        if bads:
            out.append((m, 'bad', bads[0]))
        elif all(s_ == 'raise' for s_, t in verdicts):
            out.append((m, 'raise', verdicts[0][1]))
        else:
            out.append((m, 'ok', verdicts[0][1]))
    return out


def summarize(results):
    bad = [(m, t) for m, s, t in results if s == 'bad']
    raises = [m for m, s, t in results if s == 'raise']
    unknown = [m for m, s, t in results if s == 'unknown']
    return bad, raises, unknown


# ---------------------------------------------------------------------- the encoders
def _list_of(st, items):
    o = st.new_obj('list', hint='list')
    st.heap[o.oid].items = list(items)
    return o


ENCODERS = [
    # (key, qualname, maxlen, header octets, arg builder, binding class)
    ('Update.construct_prefix_v4', 'yabgp.message.update.Update.construct_prefix_v4', 32, 1,
     lambda m, st: ([_list_of(st, [Const('10.0.0.0/%d' % m)]), Const(False)], {}), None),
    ('NLRI.construct_prefix_v4', 'yabgp.message.attribute.nlri.NLRI.construct_prefix_v4', 32, 0,
     lambda m, st: ([Const(m), Opaque('prefix_str')], {}), None),
    ('NLRI.construct_prefix_v6', 'yabgp.message.attribute.nlri.NLRI.construct_prefix_v6', 128, 0,
     lambda m, st: ([Const('2001:db8::/%d' % m)], {}), None),
    ('IPv4FlowSpec.construct_prefix', 'yabgp.message.attribute.nlri.ipv4_flowspec.IPv4FlowSpec.construct_prefix',
     32, 1, lambda m, st: ([Const('10.0.0.0/%d' % m)], {}), None),
]
