"""The reaction table of the session layer: every entry point x every FSM state.

Events (entry points, all discovered from the source):
  MSTART / MSTOP        BGPPeering.manual_start() / manual_stop()          (REST layer)
  T_<timer>             the callback each BGPTimer of FSM.__init__ was built with
  TCP_UP                BGPPeering.buildProtocol(addr) ; BGP.connectionMade()
  TCP_FAIL              BGPPeering.clientConnectionFailed(connector, reason)
  TCP_DOWN              BGP.connectionLost(reason), connection not closed by us
  TCP_CLOSED            BGP.connectionLost(reason) after our own closeConnection()
  WIRE                  BGP.parse_buffer() on a symbolic receive buffer; rows are classified
                        afterwards by the intervals of the header / OPEN fields
"""
from .front import AnalysisError
from .values import Const, Sym, Opaque, Obj, INF
from .session import SessionModel, Row, cval

ORDER = ['Idle', 'Connect', 'Active', 'OpenSent', 'OpenConfirm', 'Established']
MSG_TYPES = {1: 'OPEN', 2: 'UPDATE', 3: 'NOTIFICATION', 4: 'KEEPALIVE', 5: 'ROUTEREFRESH',
             128: 'ROUTEREFRESH'}


class Table(object):
    def __init__(self, prog, dot_dead=True, wire=True, max_paths=400000):
        self.prog = prog
        self.model = SessionModel(prog, max_paths=max_paths)
        self.dot_dead = dot_dead
        self.rows = {}       # (event, state) -> [Row]
        self.build(wire)

    # ------------------------------------------------------------------
    def _setup(self, state, protocol, **kw):
        outs = self.model.setup(state, protocol, **kw)
        if self.dot_dead and 'delay_open' in self.model.world.timers:
            oid = self.model.world.timers['delay_open'][0]
            for poid, st in outs:
                st.heap[oid].fields['$armed'] = Const('off')
                st.heap[oid].fields['status'] = Opaque('status(delay_open)', 'bool')
        return outs

    def _run(self, event, state, target, meth, args=(), kwargs=None, protocol='live', pre=None, **setup_kw):
        m = self.model
        rows = self.rows.setdefault((event, state), [])
        for poid, st in self._setup(state, protocol, **setup_kw):
            if pre is not None:
                pre(st, poid)
            oid = {'fsm': m.world.fsm, 'peering': m.world.peering, 'proto': poid}[target]
            for k, v, s in m.run_method(st, oid, meth, args, kwargs):
                r = Row(m, k, v, s, poid)
                r.event = event
                r.pre = state
                r.regime = protocol
                rows.append(r)

    def build(self, wire=True):
        m = self.model
        w = m.world
        for state in ORDER:
            regimes = ['none', 'stale'] if state in ('Idle',) else ['live']
            if state == 'Active':
                regimes = ['stale', 'live']
            if state == 'Connect':
                regimes = ['none', 'stale', 'live']
            for reg in regimes:
                self._run('MSTART', state, 'peering', 'manual_start', protocol=reg)
                self._run('MSTOP', state, 'peering', 'manual_stop', protocol=reg)
                if state == 'Idle':
                    # the deferred form of the operator's start (idle-hold first)
                    self._run('MSTART_HOLD', state, 'peering', 'manual_start', kwargs={'idle_hold': Const(True)},
                              protocol=reg)
                for short, (oid, fname, cb) in w.timers.items():
                    self._run('T_' + short, state, 'fsm', cb.name, protocol=reg)
                self._run('TCP_FAIL', state, 'peering', 'clientConnectionFailed',
                          [Opaque('connector'), Opaque('reason')], protocol=reg)
            # connection events on the tracked protocol
            live = 'live' if state != 'Idle' else 'stale'

            def not_disc(st, poid):
                st.heap[poid].fields['disconnected'] = Const(False)

            def disc(st, poid):
                st.heap[poid].fields['disconnected'] = Const(True)
            self._run('TCP_DOWN', state, 'proto', 'connectionLost', [Opaque('reason')],
                      protocol='live', pre=not_disc)
            self._run('TCP_CLOSED', state, 'proto', 'connectionLost', [Opaque('reason')],
                      protocol='live', pre=disc)
            self._tcp_up(state)
            self._stale_lost(state)
            # FSM message events, called directly
            # the FSM's OPEN event comes after the protocol negotiated: hold time and keepalive period are related
            self._run('OPEN_OK', state, 'fsm', 'open_received', protocol='live', hold_partition=True)
            self._run('HDR_ERR', state, 'fsm', 'header_error', [Opaque('sub'), Opaque('data')],
                      protocol='live')
            self._run('OPEN_ERR', state, 'fsm', 'open_message_error', [Opaque('sub'), Opaque('data')],
                      protocol='live')
            self._run('NOTIF_VER', state, 'fsm', 'notification_received', [Const(2), Const(1)],
                      protocol='live')
            for err, sub in ((2, 2), (6, 2), (3, 1), (1, 1)):
                self._run('NOTIF', state, 'fsm', 'notification_received', [Const(err), Const(sub)],
                          protocol='live')
            self._run('KEEPALIVE', state, 'fsm', 'keep_alive_received', protocol='live')
            self._run('UPDATE', state, 'fsm', 'update_received', protocol='live')
            if wire:
                self._run('WIRE', state, 'proto', 'parse_buffer', protocol='live')
        for rows in self.rows.values():
            for r in rows:
                if r.event == 'WIRE':
                    r.wire = classify_wire(r)

    def _tcp_up(self, state):
        """A pending connect attempt completes: buildProtocol + connectionMade, starting from
        `state` with no live connection (regimes none / stale)."""
        m = self.model
        rows = self.rows.setdefault(('TCP_UP', state), [])
        for reg in ('none', 'live'):
            ev = 'TCP_UP' if reg == 'none' else 'TCP_UP2'
            rows = self.rows.setdefault((ev, state), [])
            for poid0, st in self._setup(state, reg):
                st.actions = []
                for poid, s in m.new_protocol(st):
                    if poid0 is not None:
                        tr = s.heap[poid].fields.get('transport')
                        if tr is not None and hasattr(tr, 'oid'):
                            s.heap[tr.oid].fields['connected'] = Const(True)
                    for k, v, s2 in m.run_method(s, poid, 'connectionMade'):
                        r = Row(m, k, v, s2, poid)
                        r.event = ev
                        r.pre = state
                        r.regime = reg
                        r.old_poid = poid0
                        rows.append(r)

    def _stale_lost(self, state):
        """connectionLost of an earlier (already closed) connection arrives while a newer one is the
        tracked connection."""
        m = self.model
        rows = self.rows.setdefault(('TCP_CLOSED_OLD', state), [])
        for old, st in self._setup(state, 'stale'):
            for new, s in m.new_protocol(st):
                tr = s.heap[new].fields.get('transport')
                if tr is not None and hasattr(tr, 'oid'):
                    s.heap[tr.oid].fields['connected'] = Const(True)
                s.heap[m.world.fsm].fields['state'] = Const(m.states[state])
                s.actions = []
                s.writes = []
                s.path = []
                for k, v, s2 in m.run_method(s, old, 'connectionLost', [Opaque('reason')]):
                    r = Row(m, k, v, s2, new)
                    r.event = 'TCP_CLOSED_OLD'
                    r.pre = state
                    r.regime = 'live'
                    r.old_poid = old
                    rows.append(r)

    def get(self, event, state):
        return self.rows.get((event, state), [])

    def events(self):
        return sorted(set(e for e, _ in self.rows))


# ---------------------------------------------------------------------- wire classification
def _find_syms(st, fmt, funcsuffix):
    out = {}
    for name, (f, idx, fq, line) in st.syminfo.items():
        if f == fmt and fq and fq.endswith(funcsuffix):
            out.setdefault(idx, []).append(name)
    return out


def classify_wire(r):
    """Input class of a parse_buffer path, from the final intervals of the header fields."""
    st = r.st
    info = {}
    hdr = _find_syms(st, '!16sHB', 'BGP.parse_buffer')
    marker_bad = None
    for t, b in r.guards:
        if 'xff' in t and ('==' in t or '!=' in t) and 'buf' in t:
            eq = ('==' in t) == b
            marker_bad = not eq
    info['marker_bad'] = marker_bad
    if 1 not in hdr:
        info['cls'] = 'SHORT' if marker_bad is None else ('BAD_MARKER' if marker_bad else 'SHORT')
        if marker_bad:
            info['cls'] = 'BAD_MARKER'
        return info
    ln = hdr[1][0]
    ty = hdr[2][0]
    llo, lhi, _ = st.interval(ln)
    tlo, thi, tneq = st.interval(ty)
    info['len'] = (llo, lhi)
    info['type'] = (tlo, thi, sorted(tneq))
    if marker_bad:
        info['cls'] = 'BAD_MARKER'
    elif lhi < 19 or llo > 4096:
        info['cls'] = 'BAD_LEN'
    elif llo >= 19 and lhi <= 4096:
        incomplete = any(('len(buf) <' in t and b) for t, b in r.guards[2:])
        if incomplete:
            info['cls'] = 'INCOMPLETE'
        elif tlo == thi and tlo in MSG_TYPES:
            info['cls'] = MSG_TYPES[tlo]
            info['type_code'] = tlo
        elif all(k in tneq or not (tlo <= k <= thi) for k in MSG_TYPES):
            info['cls'] = 'UNKNOWN_TYPE'
        else:
            info['cls'] = 'AMBIGUOUS'
    else:
        info['cls'] = 'AMBIGUOUS_LEN'
    if info['cls'] == 'OPEN':
        of = _find_syms(st, '!BHHIB', 'Open.parse')
        if 0 in of:
            vlo, vhi, vneq = st.interval(of[0][0])
            info['version_ok'] = (vlo == vhi == 4)
            info['version_bad'] = (4 in vneq) or vhi < 4 or vlo > 4
        if 2 in of:
            info['hold_sym'] = of[2][0]
    return info
