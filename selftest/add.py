#!/usr/bin/env python3
"""helper: selftest/add.py <json-entry-file>  -> appends entries (replacing same ids)"""
import json, sys, os
HERE = os.path.dirname(os.path.abspath(__file__))
cat = json.load(open(os.path.join(HERE, 'catalogue.json')))
new = json.load(open(sys.argv[1]))
ids = {e['id'] for e in new}
cat['entries'] = [e for e in cat['entries'] if e['id'] not in ids] + new
with open(os.path.join(HERE, 'catalogue.json'), 'w') as f:
    f.write('{"entries": [\n' + ',\n'.join(' ' + json.dumps(e) for e in cat['entries']) + '\n]}\n')
print(len(cat['entries']), 'entries')
