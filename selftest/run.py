#!/usr/bin/env python3
"""Sensitivity self-test of the checkers: mutants must fire, refactor twins must stay silent.

Each catalogue entry is a textual edit (old -> new, exactly one occurrence unless count is
given) applied to a scratch copy of /repo's package under $TMPDIR (removed afterwards); the
property's quick check is run against the copy (YABGP_REPO).  The verdict of the check on
/repo itself is never influenced.

usage: selftest/run.py [C<nn> ...] [--jobs N] [--only id]
exit 0 = every mutant fired (naming the expected instance) and every twin stayed silent
exit 2 = self-test failure (never a VIOLATION)
"""
import json
import os
import shutil
import subprocess
import sys
import tempfile
from concurrent.futures import ThreadPoolExecutor

HERE = os.path.dirname(os.path.abspath(__file__))
VERIF = os.path.dirname(HERE)
REPO = os.environ.get('YABGP_REPO', '/repo')


def load_catalogue():
    with open(os.path.join(HERE, 'catalogue.json')) as f:
        return json.load(f)['entries']


def run_entry(e):
    tmp = tempfile.mkdtemp(prefix='yabgp-selftest-')
    try:
        dst = os.path.join(tmp, 'yabgp')
        shutil.copytree(os.path.join(REPO, 'yabgp'), dst,
                        ignore=shutil.ignore_patterns('tests', '__pycache__', '*.pyc'))
        for ed in e['edits']:
            p = os.path.join(tmp, ed['file'])
            with open(p) as f:
                src = f.read()
            n = src.count(ed['old'])
            want = ed.get('count', 1)
            if n != want:
                return e, 'STALE', 'edit anchor occurs %d times (expected %d) in %s' % (n, want, ed['file'])
            src = src.replace(ed['old'], ed['new'])
            try:
                compile(src, p, 'exec')
            except SyntaxError as ex:
                return e, 'STALE', 'edited file does not compile: %s' % ex
            with open(p, 'w') as f:
                f.write(src)
        env = dict(os.environ, YABGP_REPO=tmp, YABGP_EVIDENCE_DIR=os.path.join(tmp, 'evidence'))
        pr = subprocess.run([sys.executable, os.path.join(VERIF, 'sa', 'check.py'), e['property']],
                            env=env, stdout=subprocess.PIPE, stderr=subprocess.STDOUT, cwd=VERIF,
                            universal_newlines=True, timeout=600)
        out = pr.stdout
        if e['expect'] == 'fire':
            if pr.returncode != 1:
                return e, 'MISSED', 'exit %d, expected 1\n%s' % (pr.returncode, tail(out))
            needle = e.get('names')
            if needle and not any(needle in l for l in out.splitlines() if '[' in l):
                return e, 'MISNAMED', 'fired but no report names %r\n%s' % (needle, tail(out))
            return e, 'OK', ''
        if pr.returncode != 0:
            return e, 'FALSE-ALARM', 'exit %d, expected 0\n%s' % (pr.returncode, tail(out))
        return e, 'OK', ''
    finally:
        shutil.rmtree(tmp, ignore_errors=True)


def tail(out, n=12):
    lines = [l for l in out.splitlines() if not l.startswith('VIOLATION')]
    return '\n'.join('    ' + l[:300] for l in lines[-n:])


def main(argv):
    jobs = 16
    props = [a for a in argv[1:] if a.startswith('C')]
    only = None
    if '--jobs' in argv:
        jobs = int(argv[argv.index('--jobs') + 1])
    if '--only' in argv:
        only = argv[argv.index('--only') + 1]
    entries = [e for e in load_catalogue()
               if (not props or e['property'] in props) and (only is None or e['id'] == only)]
    if not entries:
        print('SELFTEST no entries selected')
        return 0
    bad = 0
    with ThreadPoolExecutor(max_workers=jobs) as ex:
        for e, verdict, detail in ex.map(run_entry, entries):
            print('SELFTEST %-11s %-4s %-6s %s' % (verdict, e['property'], e['expect'], e['id']))
            if verdict != 'OK':
                bad += 1
                print(detail)
    print('SELFTEST %d entries, %d failed' % (len(entries), bad))
    return 0 if bad == 0 else 2


if __name__ == '__main__':
    sys.exit(main(sys.argv))
